package rules

import (
	"fmt"
	"go/types"
	"sort"

	"verif/checker/core"
)

func init() {
	core.Register(&core.Rule{
		Name: "R-SIBSHAPE",
		Clause: "C06 'every shape exposes one edge set': for every Shape implementation the symbolic summaries of the sibling accessors agree - " +
			"ChainEdge(i,j) = Edge(Chain(i).Start+j), Chain(ChainPosition(e).ChainID).Start + ChainPosition(e).Offset = e, and Edge(e) = ChainEdge(ChainPosition(e)). " +
			"Summaries are ordered decision trees over linear index expressions; loops are opaque. Obligations that would need reasoning about a search loop are listed as not decided.",
		Min: 14,
		Run: runSibShape,
	})
}

// loopReasoningNeeded: inverse obligations that cannot be decided without understanding a search loop.
// Every other inverse obligation must normalise to e exactly (the loop-computed chain index must cancel).
var loopReasoningNeeded = map[string]string{
	"Polygon:Start(ChainPosition)+Offset=e": "Chain() recomputes the start by summing loop lengths; ChainPosition searches the same sums in a loop",
}

func shapeImpls(c *core.Ctx) []*types.Named {
	p := c.Pkgs["s2"]
	shapeObj, _ := p.Types.Scope().Lookup("Shape").(*types.TypeName)
	if shapeObj == nil {
		return nil
	}
	iface, _ := shapeObj.Type().Underlying().(*types.Interface)
	var out []*types.Named
	for _, name := range p.Types.Scope().Names() {
		tn, ok := p.Types.Scope().Lookup(name).(*types.TypeName)
		if !ok || tn.IsAlias() {
			continue
		}
		n, ok := tn.Type().(*types.Named)
		if !ok {
			continue
		}
		if _, isIface := n.Underlying().(*types.Interface); isIface {
			continue
		}
		if types.Implements(types.NewPointer(n), iface) {
			out = append(out, n)
		}
	}
	sort.Slice(out, func(i, j int) bool { return out[i].Obj().Name() < out[j].Obj().Name() })
	return out
}

func runSibShape(c *core.Ctx) []core.Obligation {
	var obs []core.Obligation
	impls := shapeImpls(c)
	if len(impls) < 7 {
		obs = append(obs, core.Ob("R-SIBSHAPE", "anchor:Shape-implementations", "-", "", core.Violated, fmt.Sprintf("only %d Shape implementations found, 7 expected", len(impls))))
	}
	info := c.Pkgs["s2"].TypesInfo
	for _, T := range impls {
		name := T.Obj().Name()
		get := func(m string) *types.Func { return c.LookupFunc("s2", name, m) }
		edge, chainEdge, chain, chainPos := get("Edge"), get("ChainEdge"), get("Chain"), get("ChainPosition")
		if edge == nil || chainEdge == nil || chain == nil || chainPos == nil || c.Decl(edge) == nil {
			obs = append(obs, core.Ob("R-SIBSHAPE", name+":anchor", "-", name, core.Violated, "unresolved accessor method"))
			continue
		}
		recv := sxAtom("recv", "")
		I, J, E := sxAtom("param", "i"), sxAtom("param", "j"), sxAtom("param", "e")
		newEval := func() *symEval { return &symEval{c: c, info: info} }

		report := func(tag, what string, lhs, rhs *sx, ev *symEval, site *types.Func) {
			construct := name + ":" + tag
			l, r := normalise(lhs, 0), normalise(rhs, 0)
			pos := c.Pos(site.Pos())
			switch {
			case l.String() == r.String():
				obs = append(obs, core.Ob("R-SIBSHAPE", construct, pos, "(*s2."+name+")."+site.Name(), core.Discharged, what+": both sides normalise to "+core.ShortDetail(l.String())))
			case (ev.problem != "" || l.containsOp("loopout") || r.containsOp("loopout") || l.containsOp("opaque") || r.containsOp("opaque")) &&
				(tag != "Start(ChainPosition)+Offset=e" || loopReasoningNeeded[name+":"+tag] != ""):
				o := core.Ob("R-SIBSHAPE", construct, pos, "(*s2."+name+")."+site.Name(), core.Discharged,
					what+": not decided - a side depends on a search loop the normaliser keeps opaque ("+ev.problem+")"+debugDiff(l, r))
				o.Trivial = true
				obs = append(obs, o)
			default:
				obs = append(obs, core.Ob("R-SIBSHAPE", construct, pos, "(*s2."+name+")."+site.Name(), core.Violated,
					fmt.Sprintf("%s does not hold: the two accessors denote different edges. left = %s ; right = %s", what, core.ShortDetail(l.String()), core.ShortDetail(r.String()))))
			}
		}

		// O1: ChainEdge(i,j) == Edge(Start(i)+j)   (j := 0 when every chain has length 1)
		{
			ev := newEval()
			ch := ev.evalFunc(chain, recv, []*sx{I})
			start, length := proj(ch, 0), proj(ch, 1)
			j := J
			if nl := normalise(length, 0); nl.op == "lin" && len(nl.tm) == 0 && nl.k == 1 {
				j = sxConst(0)
			}
			lhs := ev.evalFunc(chainEdge, recv, []*sx{I, j})
			rhs := ev.evalFunc(edge, recv, []*sx{sxAdd(start, j, 1)})
			report("ChainEdge=Edge(Start+j)", "ChainEdge(i,j) = Edge(Chain(i).Start + j)", lhs, rhs, ev, chainEdge)
		}
		// O2: Start(I(e)) + J(e) == e
		{
			ev := newEval()
			pos := ev.evalFunc(chainPos, recv, []*sx{E})
			ci, off := proj(pos, 0), proj(pos, 1)
			ch := ev.evalFunc(chain, recv, []*sx{ci})
			lhs := sxAdd(proj(ch, 0), off, 1)
			report("Start(ChainPosition)+Offset=e", "Chain(ChainPosition(e).ChainID).Start + ChainPosition(e).Offset = e", lhs, E, ev, chainPos)
		}
		// O3: Edge(e) == ChainEdge(I(e), J(e))
		{
			ev := newEval()
			pos := ev.evalFunc(chainPos, recv, []*sx{E})
			lhs := ev.evalFunc(edge, recv, []*sx{E})
			rhs := ev.evalFunc(chainEdge, recv, []*sx{proj(pos, 0), proj(pos, 1)})
			report("Edge=ChainEdge(ChainPosition)", "Edge(e) = ChainEdge(ChainPosition(e))", lhs, rhs, ev, edge)
		}
	}
	return obs
}

func debugDiff(l, r *sx) string {
	if !debugSib {
		return ""
	}
	return "\n   L=" + l.String() + "\n   R=" + r.String()
}

var debugSib = false
