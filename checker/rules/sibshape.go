package rules

import (
	"fmt"
	"go/ast"
	"go/token"
	"go/types"
	"sort"
	"strings"

	"golang.org/x/tools/go/ssa"

	"verif/checker/core"
)

func init() {
	core.Register(&core.Rule{
		Name: "R-SIBSHAPE",
		Clause: "C06 'every shape exposes one edge set': for every Shape implementation the symbolic summaries of the sibling accessors agree - " +
			"ChainEdge(i,j) = Edge(Chain(i).Start+j), Chain(ChainPosition(e).ChainID).Start + ChainPosition(e).Offset = e, and Edge(e) = ChainEdge(ChainPosition(e)). " +
			"Summaries are ordered decision trees over linear index expressions; loops are opaque. Obligations that would need reasoning about a search loop are listed as not decided.",
		Min: 14,
		Run: runSibShape,
	})
}

// loopReasoningNeeded: inverse obligations that cannot be decided without understanding a search loop.
// Every other inverse obligation must normalise to e exactly (the loop-computed chain index must cancel).
var loopReasoningNeeded = map[string]string{
	"Polygon:Start(ChainPosition)+Offset=e": "Chain() recomputes the start by summing loop lengths; ChainPosition searches the same sums in a loop",
}

func shapeImpls(c *core.Ctx) []*types.Named {
	p := c.Pkgs["s2"]
	shapeObj, _ := p.Types.Scope().Lookup("Shape").(*types.TypeName)
	if shapeObj == nil {
		return nil
	}
	iface, _ := shapeObj.Type().Underlying().(*types.Interface)
	var out []*types.Named
	for _, name := range p.Types.Scope().Names() {
		tn, ok := p.Types.Scope().Lookup(name).(*types.TypeName)
		if !ok || tn.IsAlias() {
			continue
		}
		n, ok := tn.Type().(*types.Named)
		if !ok {
			continue
		}
		if _, isIface := n.Underlying().(*types.Interface); isIface {
			continue
		}
		if types.Implements(types.NewPointer(n), iface) {
			out = append(out, n)
		}
	}
	sort.Slice(out, func(i, j int) bool { return out[i].Obj().Name() < out[j].Obj().Name() })
	return out
}

func runSibShape(c *core.Ctx) []core.Obligation {
	var obs []core.Obligation
	impls := shapeImpls(c)
	if len(impls) < 7 {
		obs = append(obs, core.Ob("R-SIBSHAPE", "anchor:Shape-implementations", "-", "", core.Violated, fmt.Sprintf("only %d Shape implementations found, 7 expected", len(impls))))
	}
	info := c.Pkgs["s2"].TypesInfo
	for _, T := range impls {
		name := T.Obj().Name()
		get := func(m string) *types.Func { return c.LookupFunc("s2", name, m) }
		edge, chainEdge, chain, chainPos := get("Edge"), get("ChainEdge"), get("Chain"), get("ChainPosition")
		if edge == nil || chainEdge == nil || chain == nil || chainPos == nil || c.Decl(edge) == nil {
			obs = append(obs, core.Ob("R-SIBSHAPE", name+":anchor", "-", name, core.Violated, "unresolved accessor method"))
			continue
		}
		recv := sxAtom("recv", "")
		I, J, E := sxAtom("param", "i"), sxAtom("param", "j"), sxAtom("param", "e")
		newEval := func() *symEval { return &symEval{c: c, info: info} }

		report := func(tag, what string, lhs, rhs *sx, ev *symEval, site *types.Func) {
			construct := name + ":" + tag
			l, r := normalise(lhs, 0), normalise(rhs, 0)
			pos := c.Pos(site.Pos())
			switch {
			case l.String() == r.String():
				obs = append(obs, core.Ob("R-SIBSHAPE", construct, pos, "(*s2."+name+")."+site.Name(), core.Discharged, what+": both sides normalise to "+core.ShortDetail(l.String())))
			case (ev.problem != "" || l.containsOp("loopout") || r.containsOp("loopout") || l.containsOp("opaque") || r.containsOp("opaque")) &&
				(tag != "Start(ChainPosition)+Offset=e" || loopReasoningNeeded[name+":"+tag] != ""):
				o := core.Ob("R-SIBSHAPE", construct, pos, "(*s2."+name+")."+site.Name(), core.Discharged,
					what+": not decided - a side depends on a search loop the normaliser keeps opaque ("+ev.problem+")"+debugDiff(l, r))
				o.Trivial = true
				obs = append(obs, o)
			default:
				obs = append(obs, core.Ob("R-SIBSHAPE", construct, pos, "(*s2."+name+")."+site.Name(), core.Violated,
					fmt.Sprintf("%s does not hold: the two accessors denote different edges. left = %s ; right = %s", what, core.ShortDetail(l.String()), core.ShortDetail(r.String()))))
			}
		}

		// O1: ChainEdge(i,j) == Edge(Start(i)+j)   (j := 0 when every chain has length 1)
		{
			ev := newEval()
			ch := ev.evalFunc(chain, recv, []*sx{I})
			start, length := proj(ch, 0), proj(ch, 1)
			j := J
			if nl := normalise(length, 0); nl.op == "lin" && len(nl.tm) == 0 && nl.k == 1 {
				j = sxConst(0)
			}
			lhs := ev.evalFunc(chainEdge, recv, []*sx{I, j})
			rhs := ev.evalFunc(edge, recv, []*sx{sxAdd(start, j, 1)})
			report("ChainEdge=Edge(Start+j)", "ChainEdge(i,j) = Edge(Chain(i).Start + j)", lhs, rhs, ev, chainEdge)
		}
		// O2: Start(I(e)) + J(e) == e
		{
			ev := newEval()
			pos := ev.evalFunc(chainPos, recv, []*sx{E})
			ci, off := proj(pos, 0), proj(pos, 1)
			ch := ev.evalFunc(chain, recv, []*sx{ci})
			lhs := sxAdd(proj(ch, 0), off, 1)
			report("Start(ChainPosition)+Offset=e", "Chain(ChainPosition(e).ChainID).Start + ChainPosition(e).Offset = e", lhs, E, ev, chainPos)
		}
		// O3: Edge(e) == ChainEdge(I(e), J(e))
		{
			ev := newEval()
			pos := ev.evalFunc(chainPos, recv, []*sx{E})
			lhs := ev.evalFunc(edge, recv, []*sx{E})
			rhs := ev.evalFunc(chainEdge, recv, []*sx{proj(pos, 0), proj(pos, 1)})
			report("Edge=ChainEdge(ChainPosition)", "Edge(e) = ChainEdge(ChainPosition(e))", lhs, rhs, ev, edge)
		}
	}
	obs = append(obs, runTwinSearch(c)...)
	obs = append(obs, cumulativeLookups(c)...)
	obs = append(obs, polygonAccessors(c), polygonEdgeSpace(c))
	obs = append(obs, laxChainEdgeWrap(c))
	return obs
}

func debugDiff(l, r *sx) string {
	if !debugSib {
		return ""
	}
	return "\n   L=" + l.String() + "\n   R=" + r.String()
}

var debugSib = false

// ---- twin search loops (Polygon.Edge / Polygon.ChainPosition) ----
//
// Polygon.Edge and Polygon.ChainPosition locate the loop that holds an edge with the same search (the
// source says "unify this and Edge since they are mostly identical"). The normaliser keeps loops opaque,
// so instead the two searches are compared as alpha-renamed syntax trees. Only a difference at a leaf of
// two otherwise identical trees (an operator, a constant, a different variable or field) is reported;
// trees of different shape are not compared (recorded as not decided).

func alphaTokens(info *types.Info, nodes []ast.Node) []string {
	var out []string
	num := map[types.Object]int{}
	for _, nd := range nodes {
		ast.Inspect(nd, func(n ast.Node) bool {
			switch x := n.(type) {
			case nil:
				return false
			case *ast.Ident:
				o := info.Uses[x]
				if o == nil {
					o = info.Defs[x]
				}
				if v, ok := o.(*types.Var); ok && !v.IsField() && v.Pkg() != nil && v.Parent() != v.Pkg().Scope() {
					if _, seen := num[o]; !seen {
						num[o] = len(num)
					}
					out = append(out, fmt.Sprintf("leaf:var#%d", num[o]))
				} else if o != nil {
					out = append(out, "leaf:"+o.Name())
				} else {
					out = append(out, "leaf:"+x.Name)
				}
			case *ast.BasicLit:
				out = append(out, "leaf:"+x.Value)
			case *ast.BinaryExpr:
				out = append(out, "BinaryExpr", "leaf:"+x.Op.String())
			case *ast.UnaryExpr:
				out = append(out, "UnaryExpr", "leaf:"+x.Op.String())
			case *ast.AssignStmt:
				out = append(out, "AssignStmt", "leaf:"+x.Tok.String())
			case *ast.IncDecStmt:
				out = append(out, "IncDecStmt", "leaf:"+x.Tok.String())
			case *ast.BranchStmt:
				out = append(out, "BranchStmt", "leaf:"+x.Tok.String())
			case *ast.ParenExpr:
				// transparent
			default:
				out = append(out, fmt.Sprintf("%T", n))
			}
			return true
		})
		out = append(out, ";")
	}
	return out
}

// alphaCompare returns "same", "leaf" (with a description) or "shape".
func alphaCompare(a, b []string) (string, string) {
	if len(a) != len(b) {
		return "shape", ""
	}
	var diffs []string
	for i := range a {
		if a[i] == b[i] {
			continue
		}
		if strings.HasPrefix(a[i], "leaf:") && strings.HasPrefix(b[i], "leaf:") {
			diffs = append(diffs, strings.TrimPrefix(a[i], "leaf:")+" vs "+strings.TrimPrefix(b[i], "leaf:"))
			continue
		}
		return "shape", ""
	}
	if len(diffs) == 0 {
		return "same", ""
	}
	return "leaf", strings.Join(diffs, "; ")
}

func runTwinSearch(c *core.Ctx) []core.Obligation {
	var obs []core.Obligation
	info := c.Pkgs["s2"].TypesInfo
	edge, chainPos, chainEdge := c.LookupFunc("s2", "Polygon", "Edge"), c.LookupFunc("s2", "Polygon", "ChainPosition"), c.LookupFunc("s2", "Polygon", "ChainEdge")
	if edge == nil || chainPos == nil || chainEdge == nil || c.Decl(edge) == nil || c.Decl(chainPos) == nil || c.Decl(chainEdge) == nil {
		return append(obs, core.Ob("R-SIBSHAPE", "Polygon:twin-search:anchor", "-", "", core.Violated, "unresolved anchor: Polygon.Edge/ChainPosition/ChainEdge"))
	}
	split := func(fd *ast.FuncDecl) (prefix []ast.Node, ret *ast.ReturnStmt) {
		n := len(fd.Body.List)
		if n == 0 {
			return nil, nil
		}
		ret, _ = fd.Body.List[n-1].(*ast.ReturnStmt)
		// the parameter list comes first so that the parameters get the same numbers on both sides
		prefix = append(prefix, fd.Recv, fd.Type.Params)
		for _, s := range fd.Body.List[:n-1] {
			prefix = append(prefix, s)
		}
		return
	}
	ePre, eRet := split(c.Decl(edge))
	pPre, pRet := split(c.Decl(chainPos))
	site := c.Pos(edge.Pos())
	if eRet == nil || pRet == nil {
		o := core.Ob("R-SIBSHAPE", "Polygon:search(Edge)=search(ChainPosition)", site, edge.FullName(), core.Discharged, "not decided - the functions do not end in a single return")
		o.Trivial = true
		return append(obs, o)
	}
	kind, desc := alphaCompare(alphaTokens(info, ePre), alphaTokens(info, pPre))
	switch kind {
	case "same":
		obs = append(obs, core.Ob("R-SIBSHAPE", "Polygon:search(Edge)=search(ChainPosition)", site, edge.FullName(), core.Discharged,
			"the search that maps an edge id to (loop, offset) is the same syntax tree, up to renaming, in Edge and in ChainPosition"))
	case "leaf":
		obs = append(obs, core.Ob("R-SIBSHAPE", "Polygon:search(Edge)=search(ChainPosition)", site, edge.FullName(), core.Violated,
			"Edge and ChainPosition locate an edge with searches that differ only at: "+desc+" - for some edge id Edge(e) is no longer ChainEdge(ChainPosition(e))"))
	default:
		o := core.Ob("R-SIBSHAPE", "Polygon:search(Edge)=search(ChainPosition)", site, edge.FullName(), core.Discharged, "not decided - the two searches have different shapes and are not compared")
		o.Trivial = true
		obs = append(obs, o)
	}
	// Edge's result, written with the (loop, offset) the search found, is ChainEdge(loop, offset).
	ceDecl := c.Decl(chainEdge)
	if len(ceDecl.Body.List) == 1 {
		if ceRet, ok := ceDecl.Body.List[0].(*ast.ReturnStmt); ok && len(eRet.Results) == 1 && len(ceRet.Results) == 1 {
			// number the variables by first use inside the returned expression: receiver, loop, offset
			k, d := alphaCompare(alphaTokens(info, []ast.Node{eRet.Results[0]}), alphaTokens(info, []ast.Node{ceRet.Results[0]}))
			switch k {
			case "same":
				obs = append(obs, core.Ob("R-SIBSHAPE", "Polygon:Edge.result=ChainEdge(loop,offset)", site, edge.FullName(), core.Discharged,
					"Edge returns, for the (loop, offset) found, the expression ChainEdge returns for (i, j)"))
			case "leaf":
				obs = append(obs, core.Ob("R-SIBSHAPE", "Polygon:Edge.result=ChainEdge(loop,offset)", site, edge.FullName(), core.Violated,
					"Edge and ChainEdge build the edge differently: "+d))
			default:
				o := core.Ob("R-SIBSHAPE", "Polygon:Edge.result=ChainEdge(loop,offset)", site, edge.FullName(), core.Discharged, "not decided - different shapes")
				o.Trivial = true
				obs = append(obs, o)
			}
		}
	}
	return obs
}

// cumulativeLookups (after round-6 seed C06-r6m3, LaxPolygon.ChainPosition rewritten with sort.SearchInts): the
// multi-loop shapes find the loop of an edge id in an array of cumulative counts. Loops may be EMPTY (the full
// LaxPolygon is one empty loop), so the array has repeated entries, and the loop that owns edge e is the LAST one
// whose start is <= e. Every search therefore keeps going while `start[k] <= e` (or stops at `e < start[k]`); the
// lower-bound forms `start[k] < e` / `start[k] >= e`, and sort.SearchInts, which is a lower bound, stop at the first
// of the repeated entries and attribute the edge to an empty loop.
func cumulativeLookups(c *core.Ctx) []core.Obligation {
	var obs []core.Obligation
	isCum := func(v ssa.Value) bool {
		fr, ok := core.AsFieldLoad(v)
		return ok && strings.HasPrefix(fr.Name, "cumulative")
	}
	isElem := func(v ssa.Value) bool {
		ld, ok := v.(*ssa.UnOp)
		if !ok || ld.Op != token.MUL {
			return false
		}
		ia, ok := ld.X.(*ssa.IndexAddr)
		return ok && isCum(ia.X)
	}
	perFunc := map[string]int{}
	total := 0
	for _, fn := range c.GeoFuncs() {
		name := core.FuncName(fn)
		owner := name
		if fn.Parent() != nil {
			owner = core.FuncName(fn.Parent())
		}
		n := 0
		core.AllInstrs(fn, func(in ssa.Instruction) {
			switch x := in.(type) {
			case *ssa.BinOp:
				var op token.Token
				switch {
				case isElem(x.X) && !isElem(x.Y):
					op = x.Op
				case isElem(x.Y) && !isElem(x.X):
					op = map[token.Token]token.Token{token.LSS: token.GTR, token.GTR: token.LSS, token.LEQ: token.GEQ, token.GEQ: token.LEQ}[x.Op]
				default:
					return
				}
				switch op {
				case token.LEQ, token.GTR:
					perFunc[owner]++
					total++
				case token.LSS, token.GEQ:
					n++
					obs = append(obs, core.Ob("R-SIBSHAPE", fmt.Sprintf("cumulative-lookup:%s#%d", name, n), c.Pos(x.Pos()), name, core.Violated,
						"the search compares a cumulative count with the edge id as `count "+op.String()+" e`, a lower-bound test: where an empty loop repeats a count, the search stops at the empty loop instead of the loop that owns the edge, so ChainPosition(e) and Edge(e) disagree for the first edge after every empty loop"))
				}
			case *ssa.Call:
				f := core.StaticCallee(x)
				if f == nil || f.Pkg == nil || (f.Pkg.Pkg.Path() != "sort" && f.Pkg.Pkg.Path() != "slices") {
					return
				}
				for _, a := range x.Call.Args {
					if isCum(a) && (f.Name() == "SearchInts" || f.Name() == "BinarySearch") {
						n++
						obs = append(obs, core.Ob("R-SIBSHAPE", fmt.Sprintf("cumulative-lookup:%s#%d", name, n), c.Pos(x.Pos()), name, core.Violated,
							f.Pkg.Pkg.Path()+"."+f.Name()+" returns the FIRST position whose count is >= e: where an empty loop repeats a count that is the empty loop, not the loop that owns the edge, so ChainPosition(e) and Edge(e) disagree for the first edge after every empty loop"))
					}
				}
			}
		})
	}
	for _, want := range []string{"(*s2.LaxPolygon).Edge", "(*s2.LaxPolygon).ChainPosition", "(*s2.Polygon).Edge", "(*s2.Polygon).ChainPosition"} {
		key := "cumulative-lookup:" + want
		if perFunc[want] > 0 {
			obs = append(obs, core.Ob("R-SIBSHAPE", key, "-", want, core.Discharged, fmt.Sprintf("%d upper-bound comparison(s) of a cumulative count with the edge id", perFunc[want])))
		} else {
			obs = append(obs, core.Ob("R-SIBSHAPE", key, "-", want, core.Violated, "the search for the loop that owns an edge id no longer compares the cumulative counts with it as `count <= e` / `e < count`: with empty loops (repeated counts) any other search picks the wrong loop"))
		}
	}
	return obs
}

// polygonAccessors (after round-7 seed C06-r7m1, Polygon.ChainEdge delegating to Loop.ChainEdge): a polygon
// enumerates the vertices of a hole in reverse (OrientedVertex) so that its interior is on the left; Loop's own
// accessors (Vertex, Edge, ChainEdge) use the stored order. Polygon.Edge and Polygon.ChainEdge must read loop vertices
// through the same accessor, otherwise ChainEdge(i, j) and Edge(Chain(i).Start + j) are different (reversed) edges for
// every hole. The accessors reached from each (directly or through one Loop method) are compared.
func polygonAccessors(c *core.Ctx) core.Obligation {
	const construct = "Polygon:Edge-and-ChainEdge-same-vertex-accessor"
	isAcc := func(f *ssa.Function) bool {
		if f == nil || f.Signature.Recv() == nil || !core.IsNamed(f.Signature.Recv().Type(), "s2", "Loop") {
			return false
		}
		sig := f.Signature
		return sig.Params().Len() == 1 && sig.Results().Len() == 1 && core.IsNamed(sig.Results().At(0).Type(), "s2", "Point")
	}
	var collect func(fn *ssa.Function, depth int, out map[string]bool)
	collect = func(fn *ssa.Function, depth int, out map[string]bool) {
		if fn == nil || depth > 2 {
			return
		}
		core.AllInstrs(fn, func(in ssa.Instruction) {
			call, ok := in.(*ssa.Call)
			if !ok {
				return
			}
			f := core.StaticCallee(call)
			if f == nil || !core.IsGeo(f) {
				return
			}
			if isAcc(f) {
				out[f.Name()] = true
				return
			}
			if f.Signature.Recv() != nil && core.IsNamed(f.Signature.Recv().Type(), "s2", "Loop") {
				collect(f, depth+1, out)
			}
		})
	}
	edge, chainEdge := c.Fn("s2", "Polygon", "Edge"), c.Fn("s2", "Polygon", "ChainEdge")
	if edge == nil || chainEdge == nil {
		return core.Ob("R-SIBSHAPE", construct, "-", "", core.Violated, "unresolved anchor")
	}
	a, b := map[string]bool{}, map[string]bool{}
	collect(edge, 0, a)
	collect(chainEdge, 0, b)
	names := func(m map[string]bool) string {
		var ks []string
		for k := range m {
			ks = append(ks, k)
		}
		sort.Strings(ks)
		return strings.Join(ks, ",")
	}
	if len(a) == 0 || len(b) == 0 {
		return core.Ob("R-SIBSHAPE", construct, c.Pos(chainEdge.Pos()), core.FuncName(chainEdge), core.Violated, "unresolved anchor: no loop vertex accessor reached from Polygon.Edge {"+names(a)+"} or Polygon.ChainEdge {"+names(b)+"}")
	}
	if names(a) != names(b) {
		return core.Ob("R-SIBSHAPE", construct, c.Pos(chainEdge.Pos()), core.FuncName(chainEdge), core.Violated,
			"Polygon.Edge reads loop vertices through {"+names(a)+"} but Polygon.ChainEdge through {"+names(b)+"}: for a hole (odd depth) the two run in opposite directions, so ChainEdge(i, j) is not Edge(Chain(i).Start + j) but a reversed edge from the other end of the loop")
	}
	return core.Ob("R-SIBSHAPE", construct, c.Pos(chainEdge.Pos()), core.FuncName(chainEdge), core.Discharged, "both read loop vertices through "+names(a))
}

// laxChainEdgeWrap (after round-8 seed C06-r8m1, the wrap-around of LaxPolygon.ChainEdge rewritten with absolute
// indices and compared with the end of the WHOLE vertex array): the last edge of loop i closes loop i, so on the
// multi-loop path the test that decides the wrap compares with a quantity of loop i (numLoopVertices(i), or an entry of
// cumulativeVertices), never with the polygon's total vertex count - otherwise the last edge of every loop but the
// last ends at the first vertex of the NEXT loop, and ChainEdge(i, n-1) is not Edge(Chain(i).Start + n - 1).
func laxChainEdgeWrap(c *core.Ctx) core.Obligation {
	const construct = "LaxPolygon.ChainEdge:wrap-at-end-of-own-loop"
	fn := c.Fn("s2", "LaxPolygon", "ChainEdge")
	if fn == nil {
		return core.Ob("R-SIBSHAPE", construct, "-", "", core.Violated, "unresolved anchor")
	}
	// the single-loop branch: blocks dominated by the true side of numLoops == 1
	var single []core.Edge
	for _, b := range fn.Blocks {
		ifi, ok := b.Instrs[len(b.Instrs)-1].(*ssa.If)
		if !ok {
			continue
		}
		bo, ok := ifi.Cond.(*ssa.BinOp)
		if !ok || bo.Op != token.EQL {
			continue
		}
		if fr, ok := core.AsFieldLoad(bo.X); ok && fr.Name == "numLoops" {
			single = append(single, core.Edge{From: b, Idx: 0})
		}
	}
	isTotal := func(v ssa.Value) bool {
		if call, ok := v.(*ssa.Call); ok && core.StaticCallee(call) != nil && core.StaticCallee(call).Name() == "numVertices" {
			return true
		}
		fr, ok := core.AsFieldLoad(v)
		return ok && fr.Name == "numVerts"
	}
	nwrap, bad := 0, ""
	core.AllInstrs(fn, func(in ssa.Instruction) {
		bo, ok := in.(*ssa.BinOp)
		if !ok || (bo.Op != token.EQL && bo.Op != token.NEQ) {
			return
		}
		if _, isField := core.AsFieldLoad(bo.X); isField {
			if fr, _ := core.AsFieldLoad(bo.X); fr.Name == "numLoops" {
				return
			}
		}
		nwrap++
		if !isTotal(bo.X) && !isTotal(bo.Y) {
			return
		}
		for _, e := range single {
			if core.EdgeDominates(e, bo.Block()) || e.From == bo.Block() {
				return // single loop: the total IS the loop's count
			}
		}
		bad = c.Pos(bo.Pos())
	})
	switch {
	case nwrap == 0:
		return core.Ob("R-SIBSHAPE", construct, c.Pos(fn.Pos()), core.FuncName(fn), core.Violated, "unresolved anchor: no wrap-around test found in ChainEdge")
	case bad != "":
		return core.Ob("R-SIBSHAPE", construct, bad, core.FuncName(fn), core.Violated,
			"on the multi-loop path the wrap-around test compares with the polygon's TOTAL vertex count: only the last loop ends there, so ChainEdge(i, n-1) of every other loop ends at the first vertex of the next loop instead of closing loop i, and the (chain, offset) enumeration of the edges differs from the enumeration by edge id")
	}
	return core.Ob("R-SIBSHAPE", construct, c.Pos(fn.Pos()), core.FuncName(fn), core.Discharged, fmt.Sprintf("%d wrap-around test(s); on the multi-loop path none compares with the total vertex count", nwrap))
}
