package rules

import (
	"fmt"
	"go/ast"
	"go/constant"
	"go/token"
	"go/types"
	"sort"
	"strings"

	"golang.org/x/tools/go/ssa"

	"verif/checker/core"
)

// Obligations added after the tenth round of seeded changes and the defects its sub-agents reported on the unmodified
// tree (D39-). Each is attached to an existing rule.

// lngOfPoint: v is p.Lng.Radians() / float64(p.Lng) for a LatLng-valued p; returns the value the Lng field was read from.
func lngOfPoint(v ssa.Value) (ssa.Value, bool) {
	for depth := 0; depth < 4; depth++ {
		switch x := v.(type) {
		case *ssa.Call:
			if f := core.StaticCallee(x); f != nil && f.Name() == "Radians" && len(x.Call.Args) == 1 {
				v = x.Call.Args[0]
				continue
			}
			return nil, false
		case *ssa.Convert:
			v = x.X
			continue
		case *ssa.ChangeType:
			v = x.X
			continue
		}
		break
	}
	fr, ok := core.AsFieldLoad(v)
	if !ok || fr.Name != "Lng" || fr.Struct == nil || fr.Struct.Obj().Name() != "LatLng" {
		return nil, false
	}
	return fr.Base, true
}

// orderedIntervalFromPoints (R-SPECIAL, D39: Rect.IntersectsCell built the longitude span of a cell edge with
// s1.IntervalFromEndpoints): IntervalFromEndpoints(lo, hi) keeps its arguments in order - it is the constructor for
// an interval whose orientation is known. The longitudes of two POINTS carry no orientation; the span between them
// is the shorter arc, s1.IntervalFromPointPair. With the ordered constructor an edge traversed from larger to smaller
// longitude becomes the inverted, almost full-circle interval.
func orderedIntervalFromPoints(c *core.Ctx) []core.Obligation {
	var obs []core.Obligation
	n := 0
	for _, fn := range c.GeoFuncs() {
		k := 0
		core.AllInstrs(fn, func(in ssa.Instruction) {
			call, ok := in.(*ssa.Call)
			if !ok {
				return
			}
			f := core.StaticCallee(call)
			if f == nil || f.Pkg == nil || f.Pkg.Pkg.Name() != "s1" || f.Name() != "IntervalFromEndpoints" || len(call.Call.Args) != 2 {
				return
			}
			n++
			k++
			construct := fmt.Sprintf("ordered-interval-from-two-points:%s#%d", core.FuncName(fn), k)
			a, okA := lngOfPoint(call.Call.Args[0])
			b, okB := lngOfPoint(call.Call.Args[1])
			if okA && okB && a != b {
				obs = append(obs, core.Ob("R-SPECIAL", construct, c.Pos(call.Pos()), core.FuncName(fn), core.Violated,
					"s1.IntervalFromEndpoints is given the longitudes of two different points: the constructor keeps its arguments in order, so when the first longitude is the larger one the result is the inverted interval that runs the long way round (almost the full circle) instead of the span between the points - use s1.IntervalFromPointPair"))
				return
			}
			obs = append(obs, core.Ob("R-SPECIAL", construct, c.Pos(call.Pos()), core.FuncName(fn), core.Discharged, "the arguments are not the longitudes of two different points"))
		})
	}
	if n < 1 {
		obs = append(obs, core.Ob("R-SPECIAL", "ordered-interval-from-two-points:anchor", "-", "", core.Violated, "unresolved anchor: no call of s1.IntervalFromEndpoints in the library"))
	}
	_ = token.ADD
	return obs
}

// R-SQRT: written after a sub-agent reported, on the unmodified tree, that Cell.Distance returns NaN for a target near
// the pole of a cell edge (D41: edgeDistance took math.Sqrt(1 - pq2) with pq2 a quotient that is at most 1 only in
// exact arithmetic).

func init() {
	core.Register(&core.Rule{
		Name: "R-SQRT",
		Clause: "C12/C08/C05 (results are distances, not NaN): a square root of `1 - E` is taken only where E <= 1 holds in floating point, not merely in exact arithmetic: " +
			"the difference is clamped (math.Max(0, .)), or E is clamped (math.Min(., 1)), or E is a constant c times a chord length that came from a clamping constructor with 4c <= 1, " +
			"or the function is not reachable from the library, or the site is one of the named ones with the reason.",
		Min: 4,
		Run: runSqrt,
	})
}

// sqrtNamedSites: sites where E <= 1 follows from the surrounding code; each with the reason.
var sqrtNamedSites = map[string]string{
	"s2.uvToST":            "the branch is taken for u < 0, so 1 - 3u > 1",
	"s2.intersectsLatEdge": "reached only when |sinLat| < x.Z, so cosTheta = sinLat / x.Z has |cosTheta| <= 1 (rounding of a quotient is monotone and 1 is representable) and 1 - cosTheta^2 >= 0",
}

func runSqrt(c *core.Ctx) []core.Obligation {
	var obs []core.Obligation
	isMath := func(v ssa.Value, name string) (*ssa.Call, bool) {
		call, ok := v.(*ssa.Call)
		if !ok {
			return nil, false
		}
		f := core.StaticCallee(call)
		return call, f != nil && f.Pkg != nil && f.Pkg.Pkg.Path() == "math" && f.Name() == name
	}
	constF := func(v ssa.Value) (float64, bool) {
		cv, ok := v.(*ssa.Const)
		if !ok || cv.Value == nil || (cv.Value.Kind() != constant.Float && cv.Value.Kind() != constant.Int) {
			return 0, false
		}
		f, _ := constant.Float64Val(constant.ToFloat(cv.Value))
		return f, true
	}
	clampedChord := func(v ssa.Value) bool {
		for depth := 0; depth < 3; depth++ {
			switch x := v.(type) {
			case *ssa.Convert:
				v = x.X
				continue
			case *ssa.ChangeType:
				v = x.X
				continue
			}
			break
		}
		call, ok := v.(*ssa.Call)
		if !ok {
			return false
		}
		f := core.StaticCallee(call)
		return f != nil && (f.Name() == "ChordAngleBetweenPoints" || f.Name() == "ChordAngleFromSquaredLength")
	}
	for _, fn := range c.GeoFuncs() {
		k := 0
		core.AllInstrs(fn, func(in ssa.Instruction) {
			v, ok := in.(ssa.Value)
			if !ok {
				return
			}
			call, ok := isMath(v, "Sqrt")
			if !ok {
				return
			}
			sub, ok := call.Call.Args[0].(*ssa.BinOp)
			if !ok || sub.Op != token.SUB {
				return
			}
			if one, ok := constF(sub.X); !ok || one != 1 {
				return
			}
			k++
			construct := fmt.Sprintf("sqrt-of-one-minus:%s#%d", core.FuncName(fn), k)
			pos := c.Pos(call.Pos())
			ok2 := func(why string) {
				obs = append(obs, core.Ob("R-SQRT", construct, pos, core.FuncName(fn), core.Discharged, why))
			}
			e := sub.Y
			if m, ok := isMath(e, "Min"); ok {
				for _, a := range m.Call.Args {
					if f, ok := constF(a); ok && f <= 1 {
						ok2("E is clamped by math.Min with a constant <= 1")
						return
					}
				}
			}
			if mul, ok := e.(*ssa.BinOp); ok && mul.Op == token.MUL {
				for _, pair := range [][2]ssa.Value{{mul.X, mul.Y}, {mul.Y, mul.X}} {
					if f, ok := constF(pair[0]); ok && f > 0 && 4*f <= 1 && clampedChord(pair[1]) {
						ok2(fmt.Sprintf("E is %g times a chord length from a clamping constructor (at most 4)", f))
						return
					}
				}
			}
			if !reachableFromAPI(c, fn, map[*ssa.Function]bool{}) {
				ok2("the function is not called from the library")
				return
			}
			if why, ok := sqrtNamedSites[core.FuncName(fn)]; ok {
				ok2("named site: " + why)
				return
			}
			obs = append(obs, core.Ob("R-SQRT", construct, pos, core.FuncName(fn), core.Violated,
				"math.Sqrt(1 - E) where nothing keeps E <= 1 in floating point: a quotient or product that is at most 1 in exact arithmetic rounds to slightly more than 1 for inputs at the extreme (a target 90 degrees from an edge, antipodal points), the root is NaN and so is every distance computed from it - clamp with math.Max(0, 1 - E)"))
		})
	}
	return obs
}

// reachableFromAPI: fn is exported, or (transitively) called by an exported function or method of the library, or its
// address is taken (referrers other than calls are not tracked: any caller outside the library's functions counts).
func reachableFromAPI(c *core.Ctx, fn *ssa.Function, seen map[*ssa.Function]bool) bool {
	if seen[fn] {
		return false
	}
	seen[fn] = true
	if token.IsExported(fn.Name()) || fn.Parent() != nil {
		return true
	}
	node := c.CallGraph().Nodes[fn]
	if node == nil {
		return false
	}
	for _, e := range node.In {
		if e.Caller == nil || e.Caller.Func == nil {
			return true
		}
		if !core.IsGeo(e.Caller.Func) || reachableFromAPI(c, e.Caller.Func, seen) {
			return true
		}
	}
	return false
}

// capDecodeValidated (R-DECSHAPE, D40: Cap.Decode returned a cap with the center (4, 1, 0); RegionCoverer.InteriorCovering
// of it never returns and allocates without bound): unlike a rectangle or an interval, a cap's queries divide by and
// normalise with the center, so an invalid one is not merely a wrong answer. Cap.decode reports an error unless the
// decoded cap IsValid().
func capDecodeValidated(c *core.Ctx) core.Obligation {
	const construct = "Cap.decode:validated"
	fn := c.Fn("s2", "Cap", "decode")
	if fn == nil {
		return core.Ob("R-DECSHAPE", construct, "-", "", core.Violated, "unresolved anchor")
	}
	var valid *ssa.Call
	core.AllInstrs(fn, func(in ssa.Instruction) {
		if call, ok := in.(*ssa.Call); ok {
			if f := core.StaticCallee(call); f != nil && f.Name() == "IsValid" && f.Signature.Recv() != nil && core.IsNamed(f.Signature.Recv().Type(), "s2", "Cap") {
				valid = call
			}
		}
	})
	if valid == nil {
		return core.Ob("R-DECSHAPE", construct, c.Pos(fn.Pos()), core.FuncName(fn), core.Violated,
			"Cap.decode never asks IsValid() of what it read: a center that is not a unit vector (or a radius above 4) is returned without error, and RegionCoverer.InteriorCovering of such a cap does not terminate")
	}
	// the invalid side of the test stores the decoder's error
	for _, ref := range *valid.Referrers() {
		iff, ok := ref.(*ssa.If)
		if !ok {
			if u, isNot := ref.(*ssa.UnOp); isNot && u.Op == token.NOT {
				for _, r2 := range *u.Referrers() {
					if i2, ok := r2.(*ssa.If); ok && storesErrField(i2.Block().Succs[0]) {
						return core.Ob("R-DECSHAPE", construct, c.Pos(valid.Pos()), core.FuncName(fn), core.Discharged, "the decoded cap is tested with IsValid(); the invalid side records the decoder's error")
					}
				}
			}
			continue
		}
		if storesErrField(iff.Block().Succs[1]) {
			return core.Ob("R-DECSHAPE", construct, c.Pos(valid.Pos()), core.FuncName(fn), core.Discharged, "the decoded cap is tested with IsValid(); the invalid side records the decoder's error")
		}
	}
	// short-circuit forms (`d.err == nil && !c.IsValid()`): the call's block ends in an If on !IsValid
	if iff, ok := valid.Block().Instrs[len(valid.Block().Instrs)-1].(*ssa.If); ok {
		for _, s := range iff.Block().Succs {
			if storesErrField(s) {
				return core.Ob("R-DECSHAPE", construct, c.Pos(valid.Pos()), core.FuncName(fn), core.Discharged, "the decoded cap is tested with IsValid(); the invalid side records the decoder's error")
			}
		}
	}
	return core.Ob("R-DECSHAPE", construct, c.Pos(valid.Pos()), core.FuncName(fn), core.Violated, "IsValid() is called but no branch of the test records the decoder's error")
}

func storesErrField(b *ssa.BasicBlock) bool {
	for _, in := range b.Instrs {
		if st, ok := in.(*ssa.Store); ok {
			if fr, ok := core.AsFieldAddr(st.Addr); ok && fr.Name == "err" {
				return true
			}
		}
	}
	return false
}

// collinearCandidates (R-ORDERINDEP, D42: the collinear branch of intersectionExact returned at the first of its four
// endpoint tests): of the endpoints that lie inside the other edge the lexicographically SMALLEST is the result; which
// one is found first depends on the order of the arguments. A match therefore replaces the running candidate and the
// function leaves through its common exit; no path returns one of the four parameters directly.
func collinearCandidates(c *core.Ctx) core.Obligation {
	const construct = "intersectionExact:collinear-candidates-accumulate"
	fn := c.Fn("s2", "", "intersectionExact")
	if fn == nil {
		return core.Ob("R-ORDERINDEP", construct, "-", "", core.Violated, "unresolved anchor")
	}
	params := map[ssa.Value]bool{}
	for _, p := range fn.Params {
		params[p] = true
	}
	ncmp := 0
	count := func(in ssa.Instruction) {
		if call, ok := in.(*ssa.Call); ok && calleeName(call) == "Cmp" {
			ncmp++
		}
	}
	core.AllInstrs(fn, count)
	for _, anon := range fn.AnonFuncs {
		core.AllInstrs(anon, count)
		// a helper closure that is applied to each endpoint counts once per application
		if ncmp > 0 && ncmp < 4 {
			core.AllInstrs(fn, func(in ssa.Instruction) {
				if call, ok := in.(*ssa.Call); ok && call.Call.Value == ssa.Value(nil) {
					_ = call
				}
			})
			apps := 0
			core.AllInstrs(fn, func(in ssa.Instruction) {
				if call, ok := in.(*ssa.Call); ok {
					if mc, ok := call.Call.Value.(*ssa.MakeClosure); ok && mc.Fn == anon {
						apps++
					} else if f, ok := call.Call.Value.(*ssa.Function); ok && f == anon {
						apps++
					}
				}
			})
			if apps > 1 {
				ncmp *= apps
			}
		}
	}
	if ncmp < 4 {
		return core.Ob("R-ORDERINDEP", construct, c.Pos(fn.Pos()), core.FuncName(fn), core.Violated, fmt.Sprintf("unresolved anchor: %d lexicographic comparisons found, 4 expected (one per endpoint)", ncmp))
	}
	for _, b := range fn.Blocks {
		ret, ok := b.Instrs[len(b.Instrs)-1].(*ssa.Return)
		if !ok {
			continue
		}
		for _, r := range ret.Results {
			// a parameter whose address is taken lives in a spill slot: `return a0` is a load of it
			if ld, ok := r.(*ssa.UnOp); ok && ld.Op == token.MUL {
				if al, ok := ld.X.(*ssa.Alloc); ok {
					var stored []ssa.Value
					for _, ref := range *al.Referrers() {
						if st, ok := ref.(*ssa.Store); ok && st.Addr == al {
							stored = append(stored, st.Val)
						}
					}
					if len(stored) == 1 && params[stored[0]] {
						r = stored[0]
					}
				}
			}
			if params[r] {
				return core.Ob("R-ORDERINDEP", construct, c.Pos(ret.Pos()), core.FuncName(fn), core.Violated,
					"an endpoint is returned as soon as its test succeeds: which of the two interior endpoints is tested first depends on the order of the arguments, so Intersection(a0,a1,b0,b1) and Intersection(b0,b1,a0,a1) differ for exactly collinear overlapping edges")
			}
		}
	}
	return core.Ob("R-ORDERINDEP", construct, c.Pos(fn.Pos()), core.FuncName(fn), core.Discharged, fmt.Sprintf("%d lexicographic comparisons; no path returns an endpoint directly, the candidates accumulate into the common result", ncmp))
}

// overlapNonEmpty (R-RANGE, D43: s2intersect.Find reported an intersection with an empty cell union): the closed
// interval of an overlap runs from `lastStart` (the leaf after the previous end limit) to `endLeaf` (the leaf before the
// next start limit); when an end at leaf L is followed by a start at L+1 that is [L+1, L], empty. Where an `overlap`
// value is built, its start and end have been compared (start <= end) on every path.
func overlapNonEmpty(c *core.Ctx) core.Obligation {
	const construct = "s2intersect.intervalOverlaps:overlap-start-not-after-end"
	var fn *ssa.Function
	for _, f := range c.GeoFuncs() {
		if f.Name() == "intervalOverlaps" && f.Pkg != nil && f.Pkg.Pkg.Name() == "s2intersect" {
			fn = f
		}
	}
	if fn == nil {
		return core.Ob("R-RANGE", construct, "-", "", core.Violated, "unresolved anchor")
	}
	var startStore, endStore *ssa.Store
	core.AllInstrs(fn, func(in ssa.Instruction) {
		st, ok := in.(*ssa.Store)
		if !ok {
			return
		}
		fr, ok := core.AsFieldAddr(st.Addr)
		if !ok || fr.Struct == nil || fr.Struct.Obj().Name() != "overlap" {
			return
		}
		switch fr.Name {
		case "start":
			startStore = st
		case "end":
			endStore = st
		}
	})
	if startStore == nil || endStore == nil {
		return core.Ob("R-RANGE", construct, c.Pos(fn.Pos()), core.FuncName(fn), core.Violated, "unresolved anchor: the construction of an overlap value was not found")
	}
	vs, ve := startStore.Val, endStore.Val
	for _, b := range fn.Blocks {
		iff, ok := b.Instrs[len(b.Instrs)-1].(*ssa.If)
		if !ok {
			continue
		}
		bo, ok := iff.Cond.(*ssa.BinOp)
		if !ok {
			continue
		}
		idx := -1
		switch {
		case bo.X == vs && bo.Y == ve && (bo.Op == token.LEQ || bo.Op == token.LSS):
			idx = 0
		case bo.X == vs && bo.Y == ve && (bo.Op == token.GTR):
			idx = 1
		case bo.X == ve && bo.Y == vs && (bo.Op == token.GEQ || bo.Op == token.GTR):
			idx = 0
		case bo.X == ve && bo.Y == vs && (bo.Op == token.LSS):
			idx = 1
		}
		if idx >= 0 && core.EdgeDominates(core.Edge{From: b, Idx: idx}, startStore.Block()) {
			return core.Ob("R-RANGE", construct, c.Pos(bo.Pos()), core.FuncName(fn), core.Discharged, "an overlap is built only where its start has been found not to lie after its end")
		}
	}
	return core.Ob("R-RANGE", construct, c.Pos(startStore.Pos()), core.FuncName(fn), core.Violated,
		"an overlap is emitted without comparing its start with its end: an end limit at leaf L followed by a start limit at L+1 gives the interval [L+1, L], and Find reports the unions that stay open across that point as intersecting in an empty cell union")
}

// projectResidualGuarded (R-ERRMODEL, D44, a known finding): Project computes the component of X in the plane of AB as
// the difference X - (X.N / N.N) N and returns it normalised. When X is the pole of the great circle through AB the
// difference is pure rounding noise (about 1e-16 long); its direction is arbitrary, the two Sign tests accept it in
// about a quarter of the cases, and the normalised noise - a point far from the edge - is returned as the closest
// point. A difference that vanishes is normalised only behind a test of its length.
func projectResidualGuarded(c *core.Ctx) core.Obligation {
	const construct = "Project:vanishing-residual-normalised-behind-a-length-test"
	fn := c.Fn("s2", "", "Project")
	if fn == nil {
		return core.Ob("R-ERRMODEL", construct, "-", "", core.Violated, "unresolved anchor")
	}
	// the returned Normalize() call whose receiver is a Sub of a parameter and a Mul
	var norm *ssa.Call
	core.AllInstrs(fn, func(in ssa.Instruction) {
		call, ok := in.(*ssa.Call)
		if !ok || calleeName(call) != "Normalize" || len(call.Call.Args) != 1 {
			return
		}
		if sub, ok := call.Call.Args[0].(*ssa.Call); ok && calleeName(sub) == "Sub" {
			norm = call
		}
	})
	if norm == nil {
		return core.Ob("R-ERRMODEL", construct, c.Pos(fn.Pos()), core.FuncName(fn), core.Discharged, "Project no longer normalises a difference of the query point and its out-of-plane component")
	}
	residual := norm.Call.Args[0]
	// a comparison of the residual's Norm / Norm2 (or of a dot product with itself) that dominates the normalisation
	for _, b := range fn.Blocks {
		iff, ok := b.Instrs[len(b.Instrs)-1].(*ssa.If)
		if !ok {
			continue
		}
		bo, ok := iff.Cond.(*ssa.BinOp)
		if !ok {
			continue
		}
		for _, side := range []ssa.Value{bo.X, bo.Y} {
			call, ok := side.(*ssa.Call)
			if !ok || len(call.Call.Args) == 0 || call.Call.Args[0] != residual {
				continue
			}
			if n := calleeName(call); n == "Norm" || n == "Norm2" {
				for idx := range b.Succs {
					if core.EdgeDominates(core.Edge{From: b, Idx: idx}, norm.Block()) {
						return core.Ob("R-ERRMODEL", construct, c.Pos(bo.Pos()), core.FuncName(fn), core.Discharged, "the residual's length is tested before it is normalised")
					}
				}
			}
		}
	}
	return core.Ob("R-ERRMODEL", construct, c.Pos(norm.Pos()), core.FuncName(fn), core.Violated,
		"the in-plane residual X - (X.N/N.N) N is normalised and returned without a test of its length: for X at the pole of the great circle through AB it is rounding noise, and Project returns a point that is not on the edge (for 482 of 2000 random poles the result is more than 1e-6 degrees off the edge; one is 108.7 degrees from X while DistanceFromSegment reports 90)")
}

// fileOf: the repository-relative file of a position ("s2/loop.go").
func fileOf(c *core.Ctx, p token.Pos) string {
	s := c.Pos(p)
	if i := strings.LastIndex(s, ":"); i >= 0 {
		return s[:i]
	}
	return s
}

// round10Lints (R-DUP i, j, k; reported per anchor file like the other R-DUP findings):
//
//	(i) enum tautology (after C06-r10m1: `crossType >= CrossingTypeInterior`, the zero value of the enum): an ordered
//	    comparison of a value of a named integer type against the smallest (for >=, <) or largest (for <=, >) of the
//	    constants declared for that type is always true or always false;
//	(j) float equality (after C10-r10m2: the exact antipodal test `a.Add(b) == zero` replaced by `a.Dot(b) == -1`):
//	    == or != of a COMPUTED floating-point value (an arithmetic result or the result of Dot / Norm / Norm2 / Angle)
//	    with a non-zero constant holds only when no rounding happened; exact tests compare with zero or compare stored
//	    values;
//	(k) non-zero precondition (after C09-r10m1: the `|maxSiTi` guard bit dropped in front of findLSBSetNonZero64): the
//	    argument of a function whose name says NonZero is provably non-zero - OR-ed with a non-zero constant, an odd
//	    sum (x<<1 + 1), or tested against zero on the path.
func round10Lints(c *core.Ctx) []core.Obligation {
	var obs []core.Obligation
	// declared constants per named integer type
	type rng struct{ min, max int64 }
	consts := map[*types.Named]*rng{}
	for _, pkg := range c.Pkgs {
		scope := pkg.Types.Scope()
		for _, name := range scope.Names() {
			k, ok := scope.Lookup(name).(*types.Const)
			if !ok {
				continue
			}
			nt, ok := k.Type().(*types.Named)
			if !ok || k.Val().Kind() != constant.Int {
				continue
			}
			v, exact := constant.Int64Val(k.Val())
			if !exact {
				continue
			}
			r := consts[nt]
			if r == nil {
				consts[nt] = &rng{v, v}
			} else {
				if v < r.min {
					r.min = v
				}
				if v > r.max {
					r.max = v
				}
			}
		}
	}
	nEnum, nFloat, nNZ := 0, 0, 0
	for _, fn := range c.GeoFuncs() {
		file := fileOf(c, fn.Pos())
		ke, kf, kn := 0, 0, 0
		core.AllInstrs(fn, func(in ssa.Instruction) {
			switch x := in.(type) {
			case *ssa.BinOp:
				// (i)
				if x.Op == token.GEQ || x.Op == token.LSS || x.Op == token.LEQ || x.Op == token.GTR {
					if nt, ok := x.X.Type().(*types.Named); ok {
						if r := consts[nt]; r != nil && r.max > r.min && r.max-r.min < 64 {
							if k, ok := core.ConstInt(x.Y); ok {
								nEnum++
								if ((x.Op == token.GEQ || x.Op == token.LSS) && k == r.min) || ((x.Op == token.LEQ || x.Op == token.GTR) && k == r.max) {
									ke++
									obs = append(obs, core.Ob("R-DUP", fmt.Sprintf("dup:%s:enum-tautology:%s#%d", file, core.FuncName(fn), ke), c.Pos(x.Pos()), core.FuncName(fn), core.Violated,
										fmt.Sprintf("a value of the enumeration %s is compared `%s %d` with the %s of its declared constants (%d..%d): the test has the same outcome for every declared value, so the case it was meant to exclude is let through", nt.Obj().Name(), x.Op, k, map[bool]string{true: "smallest", false: "largest"}[k == r.min], r.min, r.max)))
								}
							}
						}
					}
				}
				// (j)
				if x.Op == token.EQL || x.Op == token.NEQ {
					for _, pair := range [][2]ssa.Value{{x.X, x.Y}, {x.Y, x.X}} {
						cv, ok := pair[1].(*ssa.Const)
						if !ok || cv.Value == nil {
							continue
						}
						b, ok := cv.Type().Underlying().(*types.Basic)
						if !ok || b.Info()&types.IsFloat == 0 {
							continue
						}
						if f, _ := constant.Float64Val(constant.ToFloat(cv.Value)); f == 0 {
							continue
						}
						computed := false
						switch v := pair[0].(type) {
						case *ssa.BinOp:
							computed = v.Op == token.ADD || v.Op == token.SUB || v.Op == token.MUL || v.Op == token.QUO
						case *ssa.Call:
							switch calleeName(v) {
							case "Dot", "Norm", "Norm2", "Angle", "Distance":
								computed = true
							}
						}
						nFloat++
						if computed {
							kf++
							obs = append(obs, core.Ob("R-DUP", fmt.Sprintf("dup:%s:float-equality:%s#%d", file, core.FuncName(fn), kf), c.Pos(x.Pos()), core.FuncName(fn), core.Violated,
								"a computed floating-point value is compared for equality with the non-zero constant "+cv.String()+": the comparison holds only when every rounding happened to be exact (a.Dot(-a) is -0.9999999999999999 for most unit vectors), so the exact case it stands for is usually missed - test the exact condition on the operands"))
						}
					}
				}
			case *ssa.Call:
				// (k)
				f := core.StaticCallee(x)
				if f == nil || !strings.Contains(f.Name(), "NonZero") || len(x.Call.Args) != 1 || !core.IsGeo(f) {
					return
				}
				nNZ++
				if provablyNonZero(x.Call.Args[0], x.Block(), 0) {
					return
				}
				if why, ok := nonZeroNamed[core.FuncName(fn)]; ok {
					o := core.Ob("R-DUP", fmt.Sprintf("dup:%s:nonzero-precondition:%s", file, core.FuncName(fn)), c.Pos(x.Pos()), core.FuncName(fn), core.Discharged, "named site: "+why)
					obs = append(obs, o)
					return
				}
				kn++
				obs = append(obs, core.Ob("R-DUP", fmt.Sprintf("dup:%s:nonzero-precondition:%s#%d", file, core.FuncName(fn), kn), c.Pos(x.Pos()), core.FuncName(fn), core.Violated,
					f.Name()+" requires a non-zero argument (for zero it answers 0, i.e. 'bit 0 is set'), and nothing makes this argument non-zero: no OR with a non-zero constant, no odd sum, no test against zero on the path"))
			}
		})
	}
	obs = append(obs, core.Ob("R-DUP", "scan:round10", "-", "", core.Discharged, fmt.Sprintf("%d ordered comparisons of enumeration values with a constant, %d equality tests of a float with a non-zero constant, %d calls of NonZero bit helpers examined", nEnum, nFloat, nNZ)))
	return obs
}

// nonZeroNamed: call sites whose argument is non-zero by the documented precondition of the function.
var nonZeroNamed = map[string]string{
	"(s2.CellID).Level":               "the receiver is a valid cell id, which is never 0 (its lowest set bit marks the level); CellID.IsValid is the stated precondition of every accessor",
	"(s2.CellID).CommonAncestorLevel": "bits has been raised to at least ci.lsb() and other.lsb(), and the lsb of a valid cell id is at least 1",
}

// provablyNonZero: v | K (K != 0), v + odd-making 1 after a shift, a conversion of such a value, a value produced by
// lsb()-like helpers is NOT assumed; or the block is dominated by the non-zero side of a test of v against 0.
func provablyNonZero(v ssa.Value, at *ssa.BasicBlock, depth int) bool {
	if depth > 4 {
		return false
	}
	switch x := v.(type) {
	case *ssa.Convert:
		return provablyNonZero(x.X, at, depth+1)
	case *ssa.ChangeType:
		return provablyNonZero(x.X, at, depth+1)
	case *ssa.BinOp:
		switch x.Op {
		case token.OR:
			if k, ok := core.ConstInt(x.Y); ok && k != 0 {
				return true
			}
			if k, ok := core.ConstInt(x.X); ok && k != 0 {
				return true
			}
			return provablyNonZero(x.X, at, depth+1) || provablyNonZero(x.Y, at, depth+1)
		case token.ADD:
			// (y << s) + 1 is odd
			if k, ok := core.ConstInt(x.Y); ok && k == 1 {
				if sh, ok := x.X.(*ssa.BinOp); ok && sh.Op == token.SHL {
					return true
				}
			}
		}
	}
	// a dominating test v != 0 / v == 0
	fn := at.Parent()
	for _, b := range fn.Blocks {
		iff, ok := b.Instrs[len(b.Instrs)-1].(*ssa.If)
		if !ok {
			continue
		}
		bo, ok := iff.Cond.(*ssa.BinOp)
		if !ok || (bo.Op != token.EQL && bo.Op != token.NEQ) {
			continue
		}
		if k, ok := core.ConstInt(bo.Y); !ok || k != 0 {
			continue
		}
		if bo.X != v {
			if cv, ok := v.(*ssa.Convert); !ok || bo.X != cv.X {
				continue
			}
		}
		idx := 0
		if bo.Op == token.EQL {
			idx = 1
		}
		if core.EdgeDominates(core.Edge{From: b, Idx: idx}, at) {
			return true
		}
	}
	return false
}

// exclusiveUpdate (R-LOCK, after C14-r10m1: maybeApplyUpdates taking s.mu.RLock around applyUpdatesInternal): read
// locks do not exclude each other, so two goroutines that both saw a stale status would build the index at the same
// time. Every call of applyUpdatesInternal is dominated by a call of (*sync.RWMutex).Lock - not RLock - in the same
// function, or the function is a documented single-threaded mutator.
func exclusiveUpdate(c *core.Ctx) []core.Obligation {
	var obs []core.Obligation
	n := 0
	for _, fn := range c.GeoFuncs() {
		k := 0
		core.AllInstrs(fn, func(in ssa.Instruction) {
			call, ok := in.(*ssa.Call)
			if !ok || calleeName(call) != "applyUpdatesInternal" {
				return
			}
			n++
			k++
			construct := fmt.Sprintf("exclusive-update:%s#%d", core.FuncName(fn), k)
			how := ""
			core.AllInstrs(fn, func(in2 ssa.Instruction) {
				ci, ok := in2.(ssa.CallInstruction)
				if !ok {
					return
				}
				f := core.StaticCallee(ci)
				if f == nil || f.Pkg == nil || f.Pkg.Pkg.Path() != "sync" {
					return
				}
				if _, isDefer := in2.(*ssa.Defer); isDefer {
					return
				}
				if in2.Block() != call.Block() && !in2.Block().Dominates(call.Block()) {
					return
				}
				if in2.Block() == call.Block() {
					before := false
					for _, x := range in2.Block().Instrs {
						if x == in2 {
							before = true
						}
						if x == call {
							break
						}
					}
					if !before {
						return
					}
				}
				switch f.Name() {
				case "Lock":
					if how == "" {
						how = "Lock"
					}
				case "RLock":
					how = "RLock"
				}
			})
			switch how {
			case "Lock":
				obs = append(obs, core.Ob("R-LOCK", construct, c.Pos(call.Pos()), core.FuncName(fn), core.Discharged, "the updates are applied under the exclusive lock"))
			case "RLock":
				obs = append(obs, core.Ob("R-LOCK", construct, c.Pos(call.Pos()), core.FuncName(fn), core.Violated,
					"the pending updates are applied under a READ lock: read locks do not exclude each other, so two goroutines that both saw a stale status build the index concurrently, writing cells and cellMap without synchronisation"))
			default:
				obs = append(obs, core.Ob("R-LOCK", construct, c.Pos(call.Pos()), core.FuncName(fn), core.Violated, "the pending updates are applied without taking the index mutex in this function"))
			}
		})
	}
	if n < 1 {
		obs = append(obs, core.Ob("R-LOCK", "exclusive-update:anchor", "-", "", core.Violated, "unresolved anchor: applyUpdatesInternal is not called"))
	}
	return obs
}

// appendToSharedField (R-NOALIAS, after C14-r10m2: `chain := append(l.vertices, l.vertices[0])` in
// Loop.bruteForceContainsPoint): append writes into the backing array of its first argument whenever that has spare
// capacity. An append whose first argument is a slice held in a struct field writes into storage that other holders of
// the struct (other goroutines running read-only queries) are reading, unless the result goes back into the same field
// of the same struct (the owner growing its own slice).
func appendToSharedField(c *core.Ctx) []core.Obligation {
	var obs []core.Obligation
	n := 0
	for _, fn := range c.GeoFuncs() {
		k := 0
		core.AllInstrs(fn, func(in ssa.Instruction) {
			call, ok := in.(*ssa.Call)
			if !ok {
				return
			}
			bi, ok := call.Call.Value.(*ssa.Builtin)
			if !ok || bi.Name() != "append" || len(call.Call.Args) < 1 {
				return
			}
			first := call.Call.Args[0]
			fr, ok := core.AsFieldLoad(first)
			if !ok || fr.Struct == nil {
				return
			}
			n++
			// the result is stored back into the same field of the same base
			back := false
			for _, ref := range *call.Referrers() {
				if st, ok := ref.(*ssa.Store); ok {
					if fr2, ok := core.AsFieldAddr(st.Addr); ok && fr2.Name == fr.Name && fr2.Struct == fr.Struct {
						back = true
					}
				}
			}
			if back {
				return
			}
			k++
			obs = append(obs, core.Ob("R-NOALIAS", fmt.Sprintf("append-to-field:%s#%d", core.FuncName(fn), k), c.Pos(call.Pos()), core.FuncName(fn), core.Violated,
				fmt.Sprintf("append(%s.%s, ...) is not assigned back to the field: when the slice has spare capacity the appended element is written into the backing array that the struct (and every goroutine querying it) still uses, and the struct never sees the new length", fr.Struct.Obj().Name(), fr.Name)))
		})
	}
	obs = append(obs, core.Ob("R-NOALIAS", "append-to-field:scan", "-", "", core.Discharged, fmt.Sprintf("%d appends to a slice held in a struct field examined; each assigns its result back to that field", n)))
	return obs
}

// immutableTessellator (R-TOLERANCE, after C20-r10m2: a last-projected-vertex memo added to EdgeTessellator): an
// EdgeTessellator holds a projection and a tolerance and is documented to be used for many edges; its methods are
// called concurrently on a shared value. No method stores into a field of its receiver.
func immutableTessellator(c *core.Ctx) core.Obligation {
	const construct = "tessellator:immutable-after-construction"
	n, bad := 0, ""
	for _, fn := range c.GeoFuncs() {
		if fn.Signature.Recv() == nil || !core.IsNamed(fn.Signature.Recv().Type(), "s2", "EdgeTessellator") {
			continue
		}
		n++
		if writesReceiverField(fn, 0) {
			bad = core.FuncName(fn)
		}
	}
	if n < 4 {
		return core.Ob("R-TOLERANCE", construct, "-", "", core.Violated, fmt.Sprintf("unresolved anchor: %d methods of EdgeTessellator found", n))
	}
	if bad != "" {
		return core.Ob("R-TOLERANCE", construct, "-", bad, core.Violated,
			bad+" stores into a field of the tessellator: the type had no mutable state, so one value is shared between goroutines; with two writers the remembered vertex of one is paired with the projection of another and a chain starts at an unrelated planar point")
	}
	return core.Ob("R-TOLERANCE", construct, "-", "", core.Discharged, fmt.Sprintf("none of the %d methods of EdgeTessellator stores into its receiver", n))
}

// crosserStatePrivate (R-XSTATE, after C04-r10m1: ContainsPointQuery.shapeContains passing crosser.c to VertexCrossing):
// EdgeCrosser.c is the chain vertex that every CrossingSign / ChainCrossingSign call overwrites with its argument; read
// from outside after such a call it is the END of the edge just tested, not its start. The field is read only by
// EdgeCrosser's own methods and constructors.
func crosserStatePrivate(c *core.Ctx) []core.Obligation {
	var obs []core.Obligation
	n, k := 0, 0
	for _, fn := range c.GeoFuncs() {
		own := fn.Signature.Recv() != nil && core.IsNamed(fn.Signature.Recv().Type(), "s2", "EdgeCrosser")
		if fn.Parent() != nil && fn.Parent().Signature.Recv() != nil && core.IsNamed(fn.Parent().Signature.Recv().Type(), "s2", "EdgeCrosser") {
			own = true
		}
		if strings.HasPrefix(fn.Name(), "New") && strings.Contains(fn.Name(), "EdgeCrosser") {
			own = true
		}
		core.AllInstrs(fn, func(in ssa.Instruction) {
			var fr core.FieldRef
			var ok bool
			switch x := in.(type) {
			case *ssa.FieldAddr:
				fr, ok = core.AsFieldAddr(x)
			case *ssa.Field:
				fr, ok = core.AsFieldLoad(x)
			default:
				return
			}
			if !ok || fr.Struct == nil || fr.Struct.Obj().Name() != "EdgeCrosser" || (fr.Name != "c" && fr.Name != "acb") {
				return
			}
			n++
			if own {
				return
			}
			k++
			obs = append(obs, core.Ob("R-XSTATE", fmt.Sprintf("crosser-state-private:%s#%d", core.FuncName(fn), k), c.Pos(in.Pos()), core.FuncName(fn), core.Violated,
				"EdgeCrosser."+fr.Name+" is read outside the crosser: after CrossingSign(c, d) the crosser has already advanced to d, so the field is the END of the edge just tested; a shared-vertex test built from it sees a degenerate edge and always answers false"))
		})
	}
	st, detail := core.Discharged, fmt.Sprintf("%d accesses of the chain state (c, acb), all inside EdgeCrosser's methods and constructors", n)
	if n < 4 {
		st, detail = core.Violated, fmt.Sprintf("unresolved anchor: %d accesses of EdgeCrosser.c / acb found", n)
	}
	obs = append(obs, core.Ob("R-XSTATE", "crosser-state-private:scan", "-", "", st, detail))
	return obs
}

// round10Specific: one obligation per construct, each a necessary condition named after the seeded change that showed it.
func round10Specific(c *core.Ctx, rule string) []core.Obligation {
	var obs []core.Obligation
	ob := func(r, construct string, fn *ssa.Function, pos token.Pos, ok bool, good, bad string) {
		if r != rule {
			return
		}
		site, name := "-", ""
		if fn != nil {
			site, name = c.Pos(fn.Pos()), core.FuncName(fn)
			if pos.IsValid() {
				site = c.Pos(pos)
			}
		}
		st, d := core.Discharged, good
		if !ok {
			st, d = core.Violated, bad
		}
		obs = append(obs, core.Ob(r, construct, site, name, st, d))
	}
	calls := func(fn *ssa.Function, name string) []*ssa.Call {
		var out []*ssa.Call
		core.AllInstrs(fn, func(in ssa.Instruction) {
			if call, ok := in.(*ssa.Call); ok && calleeName(call) == name {
				out = append(out, call)
			}
		})
		return out
	}

	// C19-r10m1: Cap.Intersects is closed (>=), Cap.InteriorIntersects is open (>): the comparison of the summed radii
	// with the distance of the centres.
	if rule == "R-SPECIAL" {
		for _, spec := range []struct {
			name   string
			strict bool
		}{{"Intersects", false}, {"InteriorIntersects", true}} {
			fn := c.Fn("s2", "Cap", spec.name)
			construct := "Cap." + spec.name + ":sum-of-radii-comparison"
			if fn == nil {
				ob(rule, construct, nil, token.NoPos, false, "", "unresolved anchor")
				continue
			}
			found, good := false, true
			var at token.Pos
			core.AllInstrs(fn, func(in ssa.Instruction) {
				bo, ok := in.(*ssa.BinOp)
				if !ok {
					return
				}
				isSum := func(v ssa.Value) bool { call, ok := v.(*ssa.Call); return ok && calleeName(call) == "Add" }
				var op token.Token
				switch {
				case isSum(bo.X):
					op = bo.Op
				case isSum(bo.Y):
					op = map[token.Token]token.Token{token.LSS: token.GTR, token.GTR: token.LSS, token.LEQ: token.GEQ, token.GEQ: token.LEQ}[bo.Op]
				default:
					return
				}
				found, at = true, bo.Pos()
				if spec.strict {
					good = op == token.GTR
				} else {
					good = op == token.GEQ
				}
			})
			want := map[bool]string{true: "strictly greater than", false: "greater than or equal to"}[spec.strict]
			ob(rule, construct, fn, at, found && good, "the sum of the radii is compared as "+want+" the distance of the centres",
				"the sum of the two radii must be "+want+" the distance of the centres: Cap.Intersects is the closed test (two caps that touch in one point, a cap and its complement, a point cap and itself intersect), InteriorIntersects the open one")
		}
	}

	// C18-r10m1: the fast path of Loop.IsNormalized is about the LONGITUDE span.
	if rule == "R-AREASIGN" {
		fn := c.Fn("s2", "Loop", "IsNormalized")
		construct := "Loop.IsNormalized:fast-path-on-longitude-span"
		if fn == nil {
			ob(rule, construct, nil, token.NoPos, false, "", "unresolved anchor")
		} else {
			found, good := false, true
			for _, call := range calls(fn, "Length") {
				if len(call.Call.Args) != 1 {
					continue
				}
				if fr, ok := core.AsFieldLoad(call.Call.Args[0]); ok && (fr.Name == "Lng" || fr.Name == "Lat") {
					found = true
					if fr.Name != "Lng" {
						good = false
					}
				}
			}
			ob(rule, construct, fn, token.NoPos, !found || good, "the shortcut 'covers less than half the sphere' is taken on the longitude span of the bound (or not at all)",
				"the shortcut is taken on the LATITUDE span: that is below Pi for every loop that does not contain both poles, so a clockwise ring around one pole - the complement of a small loop - is declared normalized without consulting the turning angle, Normalize does not invert it and its Area is that of the small loop")
		}
	}

	// C09-r10m2: decoding does not transform. CellUnion.decode returns the cells as written.
	if rule == "R-WIRE" {
		fn := c.Fn("s2", "CellUnion", "decode")
		construct := "CellUnion.decode:cells-as-written"
		if fn == nil {
			ob(rule, construct, nil, token.NoPos, false, "", "unresolved anchor")
		} else {
			bad := ""
			for _, n := range []string{"Normalize", "Denormalize", "Sort", "Slice", "sortCellIDs"} {
				if len(calls(fn, n)) > 0 {
					bad = n
				}
			}
			ob(rule, construct, fn, token.NoPos, bad == "", "the decoder neither sorts nor normalises what it read",
				"CellUnion.decode calls "+bad+": the encoder writes the cells verbatim, so a valid but non-normalized union (a fixed-level covering, Denormalize output) decodes to a different value - sorted, de-duplicated, siblings merged")
		}
	}

	// C05-r10m1: the final Denormalize of normalizeCovering is needed for levelMod > 1 as well as for minLevel > 0.
	if rule == "R-PADDING" {
		fn := c.Fn("s2", "coverer", "normalizeCovering")
		construct := "coverer.normalizeCovering:denormalize-for-level-mod"
		den := []*ssa.Call(nil)
		if fn != nil {
			den = calls(fn, "Denormalize")
		}
		if fn == nil || len(den) == 0 {
			ob(rule, construct, fn, token.NoPos, false, "", "unresolved anchor")
		} else {
			// an If whose condition reads the field levelMod and from whose true side the call is reachable without
			// passing a test of minLevel
			reach := false
			for _, b := range fn.Blocks {
				iff, ok := b.Instrs[len(b.Instrs)-1].(*ssa.If)
				if !ok {
					continue
				}
				bo, ok := iff.Cond.(*ssa.BinOp)
				if !ok {
					continue
				}
				fr, ok := core.AsFieldLoad(bo.X)
				if !ok || fr.Name != "levelMod" {
					continue
				}
				for idx, s := range b.Succs {
					if (s == den[0].Block() || core.ReachableAvoiding(s, den[0].Block(), nil, nil)) && core.EdgeDominates(core.Edge{From: b, Idx: idx}, den[0].Block()) || s == den[0].Block() {
						reach = true
					}
				}
			}
			ob(rule, construct, fn, den[0].Pos(), reach, "a test of levelMod leads directly to Denormalize",
				"Denormalize is no longer reached through a test of levelMod: Normalize() merges four aligned siblings into a parent whose level is not a multiple of levelMod, and only Denormalize splits it again; with minLevel 0 the covering then violates the level modulus")
		}
	}

	// C01-r10m2: CellID.IsValid applies the even-bit mask to the LOWEST SET BIT.
	if rule == "R-MIRROR" {
		fn := c.Fn("s2", "CellID", "IsValid")
		construct := "CellID.IsValid:mask-on-lowest-set-bit"
		if fn == nil {
			ob(rule, construct, nil, token.NoPos, false, "", "unresolved anchor")
		} else {
			found, good := false, false
			core.AllInstrs(fn, func(in ssa.Instruction) {
				bo, ok := in.(*ssa.BinOp)
				if !ok || bo.Op != token.AND {
					return
				}
				for _, pair := range [][2]ssa.Value{{bo.X, bo.Y}, {bo.Y, bo.X}} {
					if k, ok := pair[1].(*ssa.Const); ok && k.Value != nil && k.Value.ExactString() == "1537228672809129301" {
						found = true
						if call, ok := pair[0].(*ssa.Call); ok && calleeName(call) == "lsb" {
							good = true
						}
					}
				}
			})
			ob(rule, construct, fn, token.NoPos, found && good, "the mask 0x1555555555555555 is applied to lsb()",
				"the even-position mask must be applied to the lowest set bit of the id: applied to the whole id it accepts almost every bit pattern whose lowest set bit is at an odd position, so ids that are no cell at all (Cell.Decode input, a leaf's ChildBegin) are reported valid")
		}
	}

	// C17-r10m2: PointCross takes the Ortho fallback iff the COMPUTED product is the zero vector.
	if rule == "R-ORDERINDEP" {
		fn := c.Fn("s2", "Point", "PointCross")
		construct := "PointCross:fallback-on-computed-zero"
		ortho := []*ssa.Call(nil)
		if fn != nil {
			ortho = calls(fn, "Ortho")
		}
		if fn == nil || len(ortho) == 0 {
			ob(rule, construct, fn, token.NoPos, false, "", "unresolved anchor")
		} else {
			good := false
			for _, b := range fn.Blocks {
				iff, ok := b.Instrs[len(b.Instrs)-1].(*ssa.If)
				if !ok {
					continue
				}
				bo, ok := iff.Cond.(*ssa.BinOp)
				if !ok || (bo.Op != token.EQL && bo.Op != token.NEQ) {
					continue
				}
				isCross := func(v ssa.Value) bool { call, ok := v.(*ssa.Call); return ok && calleeName(call) == "Cross" }
				if !isCross(bo.X) && !isCross(bo.Y) {
					continue
				}
				idx := 0
				if bo.Op == token.NEQ {
					idx = 1
				}
				if core.EdgeDominates(core.Edge{From: b, Idx: idx}, ortho[0].Block()) {
					good = true
				}
			}
			ob(rule, construct, fn, ortho[0].Pos(), good, "Ortho() is used exactly when the computed (p+op) x (op-p) equals the zero vector",
				"the fallback is no longer decided by comparing the computed product with the zero vector: the product is also exactly zero for arguments that are parallel but not bit-identical (the same direction with lengths one ulp apart), and PointCross then returns the zero vector - Interpolate and PointOnLine produce NaN from it")
		}
	}

	// C07-r10m2: WedgeContains tests the cyclic order a2 b2 b0 a0 around ab1 with two OrderedCCW calls that share b0.
	if rule == "R-ROLES" {
		fn := c.Fn("s2", "", "WedgeContains")
		construct := "WedgeContains:ordered-triples"
		if fn == nil || len(fn.Params) != 5 {
			ob(rule, construct, fn, token.NoPos, false, "", "unresolved anchor")
		} else {
			idx := map[ssa.Value]string{}
			for i, n := range []string{"a0", "ab1", "a2", "b0", "b2"} {
				idx[fn.Params[i]] = n
			}
			var got []string
			for _, call := range calls(fn, "OrderedCCW") {
				s := ""
				for _, a := range call.Call.Args {
					s += idx[a] + " "
				}
				got = append(got, strings.TrimSpace(s))
			}
			sort.Strings(got)
			want := []string{"a2 b2 b0 ab1", "b0 a0 a2 ab1"}
			ok := len(got) == 2 && got[0] == want[0] && got[1] == want[1]
			ob(rule, construct, fn, token.NoPos, ok, "OrderedCCW(a2, b2, b0, ab1) and OrderedCCW(b0, a0, a2, ab1): the two triples of the cyclic order a2 b2 b0 a0 that together force it",
				fmt.Sprintf("the two ordered triples are %v, expected %v: two CONSECUTIVE triples of the required order a2 b2 b0 a0 do not exclude the order a2 a0 b2 b0 of two disjoint wedges, which is then reported as containment", got, want))
		}
	}

	// C11-r10m1: areSiblings itself refuses face cells (the collapse loop replaces its candidate by the parent, which
	// can become a face cell inside the loop).
	if rule == "R-NORMUSE" {
		fn := c.Fn("s2", "", "areSiblings")
		construct := "areSiblings:refuses-face-cells"
		if fn == nil {
			ob(rule, construct, nil, token.NoPos, false, "", "unresolved anchor")
		} else {
			ob(rule, construct, fn, token.NoPos, len(calls(fn, "isFace")) > 0, "areSiblings tests isFace() on its own argument",
				"areSiblings no longer tests isFace(): faces 0..3 pass its XOR and mask tests, and Normalize's collapse loop, which replaces the candidate by its parent on every round, merges them into the invalid id 0x4000000000000000 when complete sibling groups cascade up to face level")
		}
	}

	// C10-r10m1 and D48: the centre cap of Rect.CapBound is grown to all four vertices (Vertex(k) in a loop over k, or
	// four separate calls; Lo() and Hi() count as two of them), and the pole cap's angle is padded by a factor > 1.
	if rule == "R-ACCUM" {
		fn := c.Fn("s2", "Rect", "CapBound")
		construct := "Rect.CapBound:center-cap-reaches-all-vertices"
		if fn == nil {
			ob(rule, construct, nil, token.NoPos, false, "", "unresolved anchor")
		} else {
			loops := loopsOf(fn)
			corners := 0
			for _, add := range calls(fn, "AddPoint") {
				inLoop := false
				for _, body := range loops {
					if body[add.Block()] {
						inLoop = true
					}
				}
				var walk func(v ssa.Value, d int)
				walk = func(v ssa.Value, d int) {
					if d > 4 {
						return
					}
					if call, ok := v.(*ssa.Call); ok {
						switch calleeName(call) {
						case "Lo", "Hi":
							corners++
						case "Vertex":
							if inLoop {
								corners += 4
							} else {
								corners++
							}
						}
						for _, a := range call.Call.Args {
							walk(a, d+1)
						}
					}
				}
				for _, a := range add.Call.Args[1:] {
					walk(a, 0)
				}
			}
			ob(rule, construct, fn, token.NoPos, corners >= 4, "the cap around the centre is extended to all four vertices of the rectangle",
				fmt.Sprintf("the cap around the rectangle's centre is extended to %d of the four vertices only: the vertices it is not extended to are mathematically no farther than their mirror images but round differently (1-2 ulp outside), and for a rectangle that straddles the equator the pair on the far side of the equator is farther away", corners))
			// the pole cap
			construct = "Rect.CapBound:pole-cap-angle-padded"
			padded := false
			for _, mk := range calls(fn, "CapFromCenterAngle") {
				var walk func(v ssa.Value, d int)
				walk = func(v ssa.Value, d int) {
					if d > 5 {
						return
					}
					switch x := v.(type) {
					case *ssa.BinOp:
						if x.Op == token.MUL {
							for _, o := range []ssa.Value{x.X, x.Y} {
								if cv, ok := o.(*ssa.Const); ok && cv.Value != nil && cv.Value.Kind() == constant.Float {
									if f, _ := constant.Float64Val(cv.Value); f > 1 && f < 1.001 {
										padded = true
									}
								}
							}
						}
						walk(x.X, d+1)
						walk(x.Y, d+1)
					case *ssa.Convert:
						walk(x.X, d+1)
					case *ssa.ChangeType:
						walk(x.X, d+1)
					case *ssa.Phi:
						for _, e := range x.Edges {
							walk(e, d+1)
						}
					}
				}
				if len(mk.Call.Args) == 2 {
					walk(mk.Call.Args[1], 0)
				}
			}
			ob(rule, construct, fn, token.NoPos, padded, "the pole cap's angle is multiplied by a constant slightly above 1",
				"the pole cap is built from the exact angle pi/2 -+ lat: the subtraction and the Angle/ChordAngle conversion round, so the rectangle's own vertices on the far parallel can lie outside the cap (lat [0, pi/2], lng [pi, 0]: vertex (0,180) has chord^2 2, the cap 1.9999999999999996), and ConvexHullQuery's full-sphere test, which reads this cap's height, is missed")
		}
	}

	// C16-r10m2: every result of Intersection passes through the hemisphere correction.
	if rule == "R-ORDERINDEP" {
		fn := c.Fn("s2", "", "Intersection")
		construct := "Intersection:every-result-hemisphere-corrected"
		if fn == nil {
			ob(rule, construct, nil, token.NoPos, false, "", "unresolved anchor")
		} else {
			var corr *ssa.BasicBlock
			for _, b := range fn.Blocks {
				iff, ok := b.Instrs[len(b.Instrs)-1].(*ssa.If)
				if !ok {
					continue
				}
				bo, ok := iff.Cond.(*ssa.BinOp)
				if !ok || (bo.Op != token.LSS && bo.Op != token.GTR && bo.Op != token.LEQ && bo.Op != token.GEQ) {
					continue
				}
				if call, ok := bo.X.(*ssa.Call); ok && calleeName(call) == "Dot" {
					corr = b
				}
			}
			good := corr != nil
			var at token.Pos
			if corr != nil {
				for _, b := range fn.Blocks {
					if ret, ok := b.Instrs[len(b.Instrs)-1].(*ssa.Return); ok && !corr.Dominates(b) {
						good, at = false, ret.Pos()
					}
				}
			}
			ob(rule, construct, fn, at, good, "the sign test against the sum of the four vertices dominates every return",
				"a result is returned without the sign test against the sum of the four vertices: the stable method's own orientation rests on the computed signs of two projections, one of which can be wrong when a vertex lies within rounding error of the other edge's plane - Intersection then returns the antipode of the crossing")
		}
	}
	// D45: xyzToFaceSiTi's "is a cell centre" test is exact in the sign of zero coordinates.
	if rule == "R-WIRE" {
		fn := c.Fn("s2", "", "xyzToFaceSiTi")
		construct := "xyzToFaceSiTi:center-test-distinguishes-signed-zero"
		if fn == nil {
			ob(rule, construct, nil, token.NoPos, false, "", "unresolved anchor")
		} else {
			n := len(calls(fn, "Signbit")) + len(calls(fn, "Float64bits"))
			ob(rule, construct, fn, token.NoPos, n >= 6, fmt.Sprintf("the comparison with the recomputed centre also compares sign bits / bit patterns (%d calls)", n),
				"a vertex counts as a cell centre on `==` alone, which does not distinguish -0 from +0: the face centres are rebuilt with negated zeros, so (-1,0,0) is written by cell id and read back as (-1,-0,-0) - not bit-identical, and its longitude changes from +Pi to -Pi")
		}
		// D46: the CellUnion encoder enforces the decoder's limit
		enc, dec := c.Fn("s2", "CellUnion", "encode"), c.Fn("s2", "CellUnion", "decode")
		construct = "CellUnion.encode:enforces-the-decoder-limit"
		if enc == nil || dec == nil {
			ob(rule, construct, nil, token.NoPos, false, "", "unresolved anchor")
		} else {
			limits := func(fn *ssa.Function) map[int64]bool {
				out := map[int64]bool{}
				core.AllInstrs(fn, func(in ssa.Instruction) {
					if bo, ok := in.(*ssa.BinOp); ok && (bo.Op == token.GTR || bo.Op == token.GEQ || bo.Op == token.LSS || bo.Op == token.LEQ) {
						for _, o := range []ssa.Value{bo.X, bo.Y} {
							if k, ok := core.ConstInt(o); ok && k >= 1000 {
								out[k] = true
							}
						}
					}
				})
				return out
			}
			dl, el := limits(dec), limits(enc)
			okk := len(dl) > 0
			for k := range dl {
				if !el[k] {
					okk = false
				}
			}
			ob(rule, construct, enc, token.NoPos, okk, "the encoder compares the number of cells with the limit the decoder enforces",
				"the decoder rejects more cells than a limit the encoder never looks at: a valid union above the limit is encoded without error into bytes that cannot be read back")
		}
	}

	// D47: the zero Polygon answers RectBound with the empty rectangle.
	if rule == "R-INIT" {
		fn := c.Fn("s2", "Polygon", "RectBound")
		construct := "Polygon.RectBound:zero-value-is-empty"
		if fn == nil {
			ob(rule, construct, nil, token.NoPos, false, "", "unresolved anchor")
		} else {
			guarded := len(calls(fn, "EmptyRect")) > 0
			capb := c.Fn("s2", "Polygon", "CapBound")
			direct := false
			if capb != nil {
				core.AllInstrs(capb, func(in ssa.Instruction) {
					if fa, ok := in.(*ssa.FieldAddr); ok {
						if fr, ok := core.AsFieldAddr(fa); ok && fr.Name == "bound" && len(calls(capb, "EmptyCap")) == 0 && len(calls(capb, "EmptyRect")) == 0 {
							direct = true
						}
					}
				})
			}
			ob(rule, construct, fn, token.NoPos, guarded && !direct, "RectBound answers EmptyRect() for the zero value and CapBound does not read the bound field past it",
				"the zero Polygon is documented to be the empty polygon, but RectBound / CapBound hand out its zero bound field - the single point (0, 0) - so the bound is not empty, a coverer covers a cell for an empty region, and the value changes its answers after an Encode/Decode round trip")
		}
	}

	// D49: the early exit of updateEdgePairMinDistance covers a negative limit.
	if rule == "R-ERRMODEL" {
		fn := c.Fn("s2", "", "updateEdgePairMinDistance")
		construct := "updateEdgePairMinDistance:nothing-beats-a-non-positive-limit"
		if fn == nil || len(fn.Params) < 5 {
			ob(rule, construct, nil, token.NoPos, false, "", "unresolved anchor")
		} else {
			good, found := false, false
			if iff, ok := fn.Blocks[0].Instrs[len(fn.Blocks[0].Instrs)-1].(*ssa.If); ok {
				if bo, ok := iff.Cond.(*ssa.BinOp); ok && bo.X == fn.Params[4] {
					if k, ok := bo.Y.(*ssa.Const); ok && k.Value != nil && constant.Sign(constant.ToFloat(k.Value)) == 0 {
						found = true
						good = bo.Op == token.LEQ
					}
				}
			}
			ob(rule, construct, fn, token.NoPos, !found || good, "the first test is minDist <= 0 (or there is no such shortcut)",
				"the shortcut 'the current minimum cannot be improved' tests minDist == 0 only: with NegativeChordAngle as the limit two crossing edges are reported as an improvement to 0, so the threshold form IsDistanceLess(target, NegativeChordAngle) answers true although no distance is below a negative limit")
		}
	}

	// D50: stableSign declines when its error bound underflowed.
	if rule == "R-STAGES" {
		fn := c.Fn("s2", "", "stableSign")
		construct := "stableSign:declines-when-the-bound-underflows"
		if fn == nil {
			ob(rule, construct, nil, token.NoPos, false, "", "unresolved anchor")
		} else {
			good := false
			for _, b := range fn.Blocks {
				iff, ok := b.Instrs[len(b.Instrs)-1].(*ssa.If)
				if !ok {
					continue
				}
				bo, ok := iff.Cond.(*ssa.BinOp)
				if !ok || (bo.Op != token.LSS && bo.Op != token.LEQ && bo.Op != token.GTR && bo.Op != token.GEQ) {
					continue
				}
				for _, o := range []ssa.Value{bo.X, bo.Y} {
					if cv, ok := o.(*ssa.Const); ok && cv.Value != nil && cv.Value.Kind() == constant.Float {
						if f, _ := constant.Float64Val(cv.Value); f > 0 && f < 1e-100 {
							good = true
						}
					}
				}
			}
			ob(rule, construct, fn, token.NoPos, good, "the error bound (or the product it is computed from) is compared with a positive constant below 1e-100 before it is trusted",
				"stableSign trusts maxErr = c * sqrt(|e1|^2 |e2|^2) without asking whether that product underflowed: for two points closer than about 1e-154 maxErr is 0 and det is rounding noise, so a definite but wrong orientation is returned and the exact stage is never consulted (RobustSign answered +1 for a triple whose exact determinant is negative)")
		}
	}

	// ---- eleventh round: D51-D58 and the known findings D59-D62 ----
	hasCall := func(fn *ssa.Function, names ...string) bool {
		for _, n := range names {
			if len(calls(fn, n)) > 0 {
				return true
			}
		}
		return false
	}

	// D51: the conservative limits end in Successor() (closest) / Predecessor() (furthest).
	if rule == "R-POLARITY" {
		for _, spec := range []struct{ recv, name, want string }{
			{"EdgeQuery", "IsConservativeDistanceLessOrEqual", "Successor"}, {"EdgeQuery", "IsConservativeDistanceGreaterOrEqual", "Predecessor"},
			{"queryOptions", "ClosestConservativeDistanceLimit", "Successor"}, {"queryOptions", "FurthestConservativeDistanceLimit", "Predecessor"},
		} {
			fn := c.Fn("s2", spec.recv, spec.name)
			construct := "conservative-limit-inclusive:" + spec.name
			if fn == nil {
				ob(rule, construct, nil, token.NoPos, false, "", "unresolved anchor")
				continue
			}
			ob(rule, construct, fn, token.NoPos, hasCall(fn, spec.want), "the expanded limit is passed through "+spec.want+"()",
				"the limit is expanded by the distance error but not passed through "+spec.want+"(): the search compares strictly, so a distance exactly at the (clamped) limit is rejected although the documentation says 'or equal' - with one indexed point and its antipode as target the distance is 4 and IsConservativeDistanceLessOrEqual(target, Straight) is false")
		}
	}

	// D52: Polygon.Contains reads its argument's bound through RectBound().
	if rule == "R-INIT" {
		fn := c.Fn("s2", "Polygon", "Contains")
		construct := "Polygon.Contains:argument-bound-through-RectBound"
		if fn == nil || len(fn.Params) < 2 {
			ob(rule, construct, nil, token.NoPos, false, "", "unresolved anchor")
		} else {
			direct := false
			core.AllInstrs(fn, func(in ssa.Instruction) {
				if fa, ok := in.(*ssa.FieldAddr); ok && fa.X == fn.Params[1] {
					if fr, ok := core.AsFieldAddr(fa); ok && fr.Name == "bound" {
						direct = true
					}
				}
			})
			ob(rule, construct, fn, token.NoPos, !direct, "the argument's bound field is not read directly",
				"the bounds check reads the argument's bound FIELD: for the zero Polygon (the documented empty polygon) that is the zero Rect, the point (0, 0), so A.Contains(&Polygon{}) is false for every A whose bound does not cover that point")
		}
	}

	// D53 / D54: the coverer.
	if rule == "R-PADDING" {
		fn := c.Fn("s2", "coverer", "replaceCellsWithAncestor")
		construct := "coverer.replaceCellsWithAncestor:lower-bound-includes-range-min"
		if fn == nil {
			ob(rule, construct, nil, token.NoPos, false, "", "unresolved anchor")
		} else {
			found, good := false, true
			for _, anon := range fn.AnonFuncs {
				core.AllInstrs(anon, func(in ssa.Instruction) {
					bo, ok := in.(*ssa.BinOp)
					if !ok {
						return
					}
					for _, side := range []ssa.Value{bo.X, bo.Y} {
						if call, ok := side.(*ssa.Call); ok && calleeName(call) == "RangeMin" {
							found = true
							op := bo.Op
							if side == bo.X {
								op = map[token.Token]token.Token{token.LSS: token.GTR, token.GTR: token.LSS, token.LEQ: token.GEQ, token.GEQ: token.LEQ}[op]
							}
							if op != token.GEQ {
								good = false
							}
						}
					}
				})
			}
			ob(rule, construct, fn, token.NoPos, found && good, "the first cell to replace is the first one >= id.RangeMin()",
				"the search for the first cell to replace is `covering[i] > id.RangeMin()`: a leaf cell equal to RangeMin() stays in front of its new ancestor, the covering never becomes canonical and normalizeCovering does not terminate")
		}
		fn = c.Fn("s2", "coverer", "normalizeCovering")
		construct = "coverer.normalizeCovering:recomputes-with-own-parameters"
		if fn == nil {
			ob(rule, construct, nil, token.NoPos, false, "", "unresolved anchor")
		} else {
			ob(rule, construct, fn, token.NoPos, !hasCall(fn, "NewRegionCoverer"), "no default RegionCoverer is constructed here",
				"the covering is recomputed with NewRegionCoverer(), i.e. with the default parameters: MinLevel, MaxLevel, LevelMod and MaxCells of the caller are ignored for large bounds")
		}
	}

	// D55: PreciseVector.Vector scales before converting.
	if rule == "R-ORDERINDEP" {
		var fn *ssa.Function
		for _, f := range c.GeoFuncs() {
			if f.Name() == "Vector" && f.Signature.Recv() != nil && core.IsNamed(f.Signature.Recv().Type(), "r3", "PreciseVector") {
				fn = f
			}
		}
		construct := "PreciseVector.Vector:scaled-before-conversion"
		if fn == nil {
			ob(rule, construct, nil, token.NoPos, false, "", "unresolved anchor")
		} else {
			scaled := hasCall(fn, "SetMantExp", "MantExp")
			for _, anon := range fn.AnonFuncs {
				if hasCall(anon, "SetMantExp", "MantExp") {
					scaled = true
				}
			}
			ob(rule, construct, fn, token.NoPos, scaled, "the components are brought to a common exponent (MantExp / SetMantExp) before the conversion to float64",
				"the components are converted to float64 one by one: when all of them are below the float64 range (the exact cross product for edges some 1e-100 long) they become zero, Normalize returns the zero vector, and intersectionExact takes that for 'exactly collinear' - Intersection returned its sentinel (10,10,10)")
		}
		// D56
		fn = c.Fn("s2", "", "intersectionStableSorted")
		construct = "intersectionStableSorted:declines-when-the-norm-underflows"
		if fn == nil {
			ob(rule, construct, nil, token.NoPos, false, "", "unresolved anchor")
		} else {
			good := false
			core.AllInstrs(fn, func(in ssa.Instruction) {
				bo, ok := in.(*ssa.BinOp)
				if !ok || (bo.Op != token.LSS && bo.Op != token.LEQ && bo.Op != token.GTR && bo.Op != token.GEQ) {
					return
				}
				for _, o := range []ssa.Value{bo.X, bo.Y} {
					if cv, ok := o.(*ssa.Const); ok && cv.Value != nil && cv.Value.Kind() == constant.Float {
						if f, _ := constant.Float64Val(cv.Value); f > 1e-320 && f < 1e-100 {
							good = true
						}
					}
				}
			})
			ob(rule, construct, fn, token.NoPos, good, "the squared length of the unnormalised result is compared with a normal-range constant before its square root is used",
				"x is normalised with 1 / x.Norm() without asking whether x.Norm2() is a denormal: for edges about 1e-81 long the square root has lost most of its precision and Intersection returns a vector of norm 0.748 (a threshold of math.SmallestNonzeroFloat64, the smallest DENORMAL, does not help)")
		}
	}

	// D57: Rect.decode validates; D58: vertex decoders check the length.
	if rule == "R-DECSHAPE" {
		fn := c.Fn("s2", "Rect", "decode")
		construct := "Rect.decode:validated"
		if fn == nil {
			ob(rule, construct, nil, token.NoPos, false, "", "unresolved anchor")
		} else {
			ob(rule, construct, fn, token.NoPos, hasCall(fn, "IsValid"), "the decoded rectangle is tested with IsValid()",
				"Rect.decode never asks IsValid() of what it read: lat [0, 0.5], lng [0, 10] is returned without error and HausdorffDistance of it panics")
		}
		for _, spec := range []struct{ recv, name string }{{"Loop", "decode"}, {"Polyline", "decode"}, {"", "decodePointsCompressed"}} {
			fn := c.Fn("s2", spec.recv, spec.name)
			construct := "unit-length-checked:" + spec.recv + "." + spec.name
			if fn == nil {
				ob(rule, construct, nil, token.NoPos, false, "", "unresolved anchor")
				continue
			}
			good := hasCall(fn, "IsUnit", "Validate", "findValidationError")
			for _, call := range calls(fn, "checkUnitLength") {
				if f := core.StaticCallee(call); f != nil && hasCall(f, "IsUnit") {
					good = true
				}
			}
			ob(rule, construct, fn, token.NoPos, good, "decoded vertices are tested for unit length",
				"vertices read from the wire are not tested for unit length: any finite vector is accepted, and the exact predicates overflow on coordinates like 1.7e308 (Inf - Inf = NaN, on which math/big panics) - Loop.Area, Polygon.Area and Polyline.Project panic on the decoded value")
		}
	}

	// D59 (known finding): the tessellator's recursion has no depth bound.
	if rule == "R-TOLERANCE" {
		for _, name := range []string{"appendProjected", "appendUnprojected"} {
			fn := c.Fn("s2", "EdgeTessellator", name)
			construct := "tessellator:recursion-depth-bounded:" + name
			if fn == nil {
				ob(rule, construct, nil, token.NoPos, false, "", "unresolved anchor")
				continue
			}
			// an integer parameter that is compared with a constant and passed on changed by one
			bounded := false
			for _, p := range fn.Params {
				if b, ok := p.Type().Underlying().(*types.Basic); ok && b.Info()&types.IsInteger != 0 {
					for _, ref := range *p.Referrers() {
						if bo, ok := ref.(*ssa.BinOp); ok && (bo.Op == token.LSS || bo.Op == token.LEQ || bo.Op == token.GTR || bo.Op == token.GEQ || bo.Op == token.EQL) {
							bounded = true
						}
					}
				}
			}
			ob(rule, construct, fn, token.NoPos, bounded, "the recursion carries a depth counter that is compared with a limit",
				"the recursion stops only when estimateMaxError falls below the tolerance: when the projection's own rounding error exceeds the tolerance (Mercator near the poles: 3.6e-13 rad at latitude 89.99) that never happens, and NewEdgeTessellator(NewMercatorProjection(180), 1e-13).AppendProjected((89.99,10),(89.9897,10.2)) recurses until the stack overflows, although the comment promises a depth below 45")
		}
	}

	// D60 (known finding): Intersection's hemisphere test has no margin.
	if rule == "R-ORDERINDEP" {
		fn := c.Fn("s2", "", "Intersection")
		construct := "Intersection:hemisphere-test-has-a-margin-or-exact-fallback"
		if fn != nil {
			bare := false
			core.AllInstrs(fn, func(in ssa.Instruction) {
				bo, ok := in.(*ssa.BinOp)
				if !ok || (bo.Op != token.LSS && bo.Op != token.GTR && bo.Op != token.LEQ && bo.Op != token.GEQ) {
					return
				}
				if call, ok := bo.X.(*ssa.Call); ok && calleeName(call) == "Dot" {
					if cv, ok := bo.Y.(*ssa.Const); ok && cv.Value != nil && constant.Sign(constant.ToFloat(cv.Value)) == 0 {
						bare = true
					}
				}
			})
			ob(rule, construct, fn, token.NoPos, !bare, "the sign that chooses between the result and its antipode is not a bare float comparison with zero",
				"the result is negated when pt.Dot((a0+a1)+(b0+b1)) < 0, a bare float comparison: for two crossing edges each within about 3e-9 rad of 180 degrees the true value is about 1e-17, below the rounding error of the vertices, and Intersection returns the ANTIPODE of the crossing (8.3e-9 rad from both edges; bound 8.9e-16)")
		}
	}

	// D61 (known finding): ContainsPoint of the antipode of the reference origin.
	if rule == "R-PARITY" {
		fn := c.Fn("s2", "Loop", "bruteForceContainsPoint")
		construct := "Loop.bruteForceContainsPoint:antipode-of-origin"
		if fn != nil {
			guarded := false
			core.AllInstrs(fn, func(in ssa.Instruction) {
				if bo, ok := in.(*ssa.BinOp); ok && (bo.Op == token.EQL || bo.Op == token.NEQ) && core.IsNamed(bo.X.Type(), "s2", "Point") {
					guarded = true
				}
			})
			ob(rule, construct, fn, token.NoPos, guarded, "the query point is compared with a special point before the crossings from the origin are counted",
				"crossings are counted along the segment from OriginPoint() to the query point; for the query point -OriginPoint() that segment is an antipodal 'edge' on which no crossing is ever reported, so every loop of at most 32 vertices that contains the origin reports that it contains (0.00999946643502502, -0.00259245426093241, -0.999946643502502), 3.1 rad away")
		}
	}

	// D62 (known finding): Cap.Union does not round its result outward.
	if rule == "R-SPECIAL" {
		fn := c.Fn("s2", "Cap", "Union")
		construct := "Cap.Union:result-rounded-outward"
		if fn != nil {
			ob(rule, construct, fn, token.NoPos, hasCall(fn, "Expanded", "AddCap", "Successor"), "the result is expanded after it has been computed",
				"the radius 0.5*(d + r1 + r2) and the centre are each rounded and nothing is added: about 20% of random cap pairs give a union that does not contain one of its operands - CapFromPoint((1,0,0)).Union(CapFromPoint((-0.48545898576095153, 0.14011729706402276, -0.8629581196138203))) contains NEITHER point")
		}
	}

	// C06-r11m2 / C04-r10m2: Polygon.iteratorContainsPoint tests each clipped edge on its own. The vertex-chain form of
	// Loop.iteratorContainsPoint (RestartAt only on a gap in the edge ids, then EdgeOrVertexChainCrossing) is wrong for
	// a polygon, whose edge ids run across loop boundaries: consecutive ids need not share a vertex.
	if rule == "R-PARITY" {
		fn := c.Fn("s2", "Polygon", "iteratorContainsPoint")
		construct := "Polygon.iteratorContainsPoint:no-vertex-chain-across-loops"
		if fn == nil {
			ob(rule, construct, nil, token.NoPos, false, "", "unresolved anchor")
		} else {
			ob(rule, construct, fn, token.NoPos, !hasCall(fn, "EdgeOrVertexChainCrossing", "ChainCrossingSign", "RestartAt"), "each clipped edge is tested with both of its endpoints",
				"the clipped edges are walked as a vertex chain (RestartAt / EdgeOrVertexChainCrossing): the edge ids of a polygon run across loop boundaries, so the first edge of a loop that shares an index cell with the last edge of the previous loop is replaced by a phantom edge between the two loops, and ContainsCell / IntersectsCell / ContainsPoint report the opposite of brute force")
		}
	}

	// C20-r11m2: wrapDestination treats the x and the y coordinate alike (the y branch is the x branch with x, X
	// replaced by y, Y); an incomplete renaming wraps y with the period of x.
	if rule == "R-TOLERANCE" {
		fn := c.LookupFunc("s2", "", "wrapDestination")
		construct := "wrapDestination:x-and-y-alike"
		if fn == nil || c.Decl(fn) == nil {
			ob(rule, construct, nil, token.NoPos, false, "", "unresolved anchor")
		} else {
			var xs, ys []string
			for _, st := range c.Decl(fn).Body.List {
				hasX, hasY := false, false
				ast.Inspect(st, func(n ast.Node) bool {
					if id, ok := n.(*ast.Ident); ok {
						switch id.Name {
						case "x", "X":
							hasX = true
						case "y", "Y":
							hasY = true
						}
					}
					return true
				})
				if hasX == hasY {
					continue
				}
				str := alphaPrint(st, func(id *ast.Ident) string {
					switch id.Name {
					case "x", "y":
						return "$v"
					case "X", "Y":
						return "$F"
					}
					return id.Name
				})
				if hasX {
					xs = append(xs, str)
				} else {
					ys = append(ys, str)
				}
			}
			same := len(xs) == len(ys) && len(xs) >= 2
			for k := 0; same && k < len(xs); k++ {
				if xs[k] != ys[k] {
					same = false
				}
			}
			site, name := c.Pos(fn.Pos()), fn.FullName()
			st, d := core.Discharged, fmt.Sprintf("%d statements per coordinate, identical up to the exchange of x and y, X and Y", len(xs))
			if !same {
				st, d = core.Violated, fmt.Sprintf("the statements for x (%d) and for y (%d) are not the same up to the exchange of x/X and y/Y: one coordinate is tested against or wrapped with the other coordinate's period, so a tall Mercator edge (y difference above half the x period) is shifted by a whole x period and the tessellation heads for the wrong point", len(xs), len(ys))
			}
			obs = append(obs, core.Ob(rule, construct, site, name, st, d))
		}
	}

	// C08-r11m1: the furthest-side bound is the SUPPLEMENT of the distance (StraightChordAngle - d), not a copy of the
	// closest side's expansion.
	if rule == "R-POLARITY" {
		var fn *ssa.Function
		for _, f := range c.GeoFuncs() {
			if f.Name() == "chordAngleBound" && f.Signature.Recv() != nil && core.IsNamed(f.Signature.Recv().Type(), "s2", "maxDistance") {
				fn = f
			}
		}
		construct := "maxDistance.chordAngleBound:supplement"
		if fn == nil {
			ob(rule, construct, nil, token.NoPos, false, "", "unresolved anchor")
		} else {
			good := false
			core.AllInstrs(fn, func(in ssa.Instruction) {
				if bo, ok := in.(*ssa.BinOp); ok && bo.Op == token.SUB {
					if cv, ok := bo.X.(*ssa.Const); ok && cv.Value != nil {
						if f, _ := constant.Float64Val(constant.ToFloat(cv.Value)); f == 4 {
							good = true
						}
					}
				}
			})
			ob(rule, construct, fn, token.NoPos, good, "the bound is StraightChordAngle minus the distance",
				"the furthest-edge search looks around the ANTIPODE of the target, within pi minus the limit; a bound that is the limit itself (the closest side's formula) shrinks that disc and qualifying edges outside it are silently dropped")
		}
		// C08-r11m2: the first and last cell handed to addInitialRange are clones of the iterator, which moves on.
		fn = c.Fn("s2", "EdgeQuery", "initCovering")
		construct = "EdgeQuery.initCovering:initial-range-from-cloned-iterators"
		if fn == nil {
			ob(rule, construct, nil, token.NoPos, false, "", "unresolved anchor")
		} else {
			found, good := false, true
			fnLoops := loopsOf(fn)
			for _, call := range calls(fn, "addInitialRange") {
				inLoop := false
				for _, body := range fnLoops {
					if body[call.Block()] {
						inLoop = true
					}
				}
				if !inLoop {
					continue // after the walk the iterators themselves are handed over; nothing advances them any more
				}
				for _, a := range call.Call.Args[1:] {
					found = true
					v := a
					if ld, ok := v.(*ssa.UnOp); ok && ld.Op == token.MUL {
						if al, ok := ld.X.(*ssa.Alloc); ok {
							for _, ref := range *al.Referrers() {
								if st, ok := ref.(*ssa.Store); ok && st.Addr == al {
									v = st.Val
								}
							}
						}
					}
					if cl, ok := v.(*ssa.Call); !ok || calleeName(cl) != "clone" {
						good = false
					}
				}
			}
			if !found {
				ob(rule, construct, fn, token.NoPos, false, "", "unresolved anchor: no call of addInitialRange inside the loop over the top-level cells (on the pinned tree the loop body ends in a stray break, D12, so there is no loop)")
			} else {
				ob(rule, construct, fn, token.NoPos, good, "both ends of every initial range are clone()s of the walking iterator",
					"an end of the initial range is the walking iterator itself, not a clone: the iterator is advanced by the following seek, so addInitialRange receives the first cell of the NEXT range and every edge on the lowest spanned face is left out of the covering")
			}
		}
	}

	// C03-r11m1: the stateless CrossingSign holds no geometry of its own.
	if rule == "R-STAGES" {
		fn := c.Fn("s2", "", "CrossingSign")
		construct := "CrossingSign:delegates-to-the-crosser"
		if fn == nil {
			ob(rule, construct, nil, token.NoPos, false, "", "unresolved anchor")
		} else {
			cmp := false
			core.AllInstrs(fn, func(in ssa.Instruction) {
				if bo, ok := in.(*ssa.BinOp); ok {
					if b, ok := bo.X.Type().Underlying().(*types.Basic); ok && b.Info()&types.IsFloat != 0 {
						switch bo.Op {
						case token.LSS, token.LEQ, token.GTR, token.GEQ:
							cmp = true
						}
					}
				}
			})
			ob(rule, construct, fn, token.NoPos, !cmp && hasCall(fn, "ChainCrossingSign", "CrossingSign"), "no floating-point comparison of its own; the answer comes from the EdgeCrosser",
				"the stateless CrossingSign decides some cases by a floating-point comparison of its own before (or instead of) asking the EdgeCrosser: the two entry points then disagree, and a rejection that is not backed by the exact predicates is wrong for long edges and for shared vertices (MaybeCross becomes DoNotCross)")
		}
	}

	// C05-r11m1: a closed predicate does not pre-filter with an interior (open) test.
	if rule == "R-SPECIAL" {
		n, bad := 0, ""
		var badFn *ssa.Function
		for _, fn := range c.GeoFuncs() {
			if strings.HasPrefix(fn.Name(), "Interior") || strings.HasPrefix(fn.Name(), "interior") {
				continue
			}
			for _, nm := range []string{"InteriorIntersects", "InteriorContains", "InteriorContainsInterval"} {
				for _, call := range calls(fn, nm) {
					n++
					if why, ok := interiorCallAllowed[core.FuncName(fn)]; ok {
						_ = why
						continue
					}
					bad, badFn = nm, fn
					_ = call
				}
			}
		}
		construct := "closed-predicates-do-not-filter-with-interior-tests"
		if bad != "" {
			ob(rule, construct, badFn, token.NoPos, false, "", core.FuncName(badFn)+" is a closed (boundary-inclusive) predicate but calls "+bad+": an interval that only touches, or has zero width (a meridian segment), fails the open test, so the closed predicate answers false for regions that share a boundary point")
		} else {
			obs = append(obs, core.Ob(rule, construct, "-", "", core.Discharged, fmt.Sprintf("%d calls of Interior* interval predicates from functions that are not themselves Interior*; each is a named site", n)))
		}
	}

	return obs
}

// interiorCallAllowed: functions that are not Interior* themselves and call an Interior* interval predicate on purpose.
var interiorCallAllowed = map[string]string{}

// InstallLateObligations attaches the obligations of round10Specific to the rules they belong to. It is called once by
// the driver after all rules have registered (the init order of the files in this package is alphabetical).
func InstallLateObligations() {
	for _, name := range []string{"R-SPECIAL", "R-AREASIGN", "R-WIRE", "R-PADDING", "R-MIRROR", "R-ORDERINDEP", "R-ROLES", "R-NORMUSE", "R-ACCUM", "R-INIT", "R-ERRMODEL", "R-STAGES", "R-POLARITY", "R-DECSHAPE", "R-TOLERANCE", "R-PARITY"} {
		r := core.GetRule(name)
		if r == nil || lateInstalled[name] {
			continue
		}
		lateInstalled[name] = true
		orig, n := r.Run, name
		r.Run = func(c *core.Ctx) []core.Obligation {
			return append(append(orig(c), round10Specific(c, n)...), round12Specific(c, n)...)
		}
	}
}

var lateInstalled = map[string]bool{}

// boundAfterErrorCheck (R-DECSHAPE, after C15-r10m1: the error checks of Loop.decodeCompressed merged into one at the
// end): initBound / initOriginAndBound walk the decoded vertices with the exact predicates, which panic on the NaN that
// a short read leaves in the scratch buffer. In a decoder they are called only where a test of the decoder's error lies
// between the calls that read vertex data (decodePointsCompressed, readFloat64) and the call.
func boundAfterErrorCheck(c *core.Ctx) []core.Obligation {
	var obs []core.Obligation
	n := 0
	for _, fn := range c.GeoFuncs() {
		hasDecoder := false
		for _, p := range fn.Params {
			if pt, ok := p.Type().(*types.Pointer); ok && core.IsNamed(pt.Elem(), "s2", "decoder") {
				hasDecoder = true
			}
		}
		if !hasDecoder {
			continue
		}
		var targets, reads []*ssa.Call
		core.AllInstrs(fn, func(in ssa.Instruction) {
			call, ok := in.(*ssa.Call)
			if !ok {
				return
			}
			switch calleeName(call) {
			case "initBound", "initOriginAndBound":
				targets = append(targets, call)
			case "decodePointsCompressed", "readFloat64":
				reads = append(reads, call)
			}
		})
		if len(targets) == 0 || len(reads) == 0 {
			continue
		}
		// the no-error edges of tests of decoder.err
		var guards []core.Edge
		for _, b := range fn.Blocks {
			iff, ok := b.Instrs[len(b.Instrs)-1].(*ssa.If)
			if !ok {
				continue
			}
			bo, ok := iff.Cond.(*ssa.BinOp)
			if !ok || (bo.Op != token.EQL && bo.Op != token.NEQ) {
				continue
			}
			fr, ok := core.AsFieldLoad(bo.X)
			if !ok || fr.Name != "err" {
				continue
			}
			idx := 1 // err != nil: the false side is the no-error side
			if bo.Op == token.EQL {
				idx = 0
			}
			guards = append(guards, core.Edge{From: b, Idx: idx})
		}
		for k, t := range targets {
			n++
			construct := fmt.Sprintf("bound-computed-after-error-check:%s#%d", core.FuncName(fn), k+1)
			good := false
			for _, g := range guards {
				if !core.EdgeDominates(g, t.Block()) {
					continue
				}
				// no vertex read after this guard on the way to the target
				clean := true
				for _, r := range reads {
					if core.EdgeDominates(g, r.Block()) && (r.Block() == t.Block() || core.ReachableAvoiding(r.Block(), t.Block(), nil, nil)) {
						clean = false
					}
				}
				if clean {
					good = true
				}
			}
			if good {
				obs = append(obs, core.Ob("R-DECSHAPE", construct, c.Pos(t.Pos()), core.FuncName(fn), core.Discharged, "a test of the decoder's error lies between the vertex reads and the bound computation"))
			} else {
				obs = append(obs, core.Ob("R-DECSHAPE", construct, c.Pos(t.Pos()), core.FuncName(fn), core.Violated,
					"the bound is computed from the decoded vertices before the decoder's error has been looked at: a read that failed half way leaves stale bytes in the float scratch buffer (NaN is one byte away), and initBound hands those coordinates to the exact predicates, which panic in math/big"))
			}
		}
	}
	if n < 1 {
		obs = append(obs, core.Ob("R-DECSHAPE", "bound-computed-after-error-check:anchor", "-", "", core.Violated, fmt.Sprintf("unresolved anchor: %d bound computations in decoders found", n)))
	}
	return obs
}
