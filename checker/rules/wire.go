package rules

import (
	"fmt"
	"go/ast"
	"go/types"
	"sort"
	"strings"

	"golang.org/x/tools/go/ssa"

	"verif/checker/core"
)

func init() {
	core.Register(&core.Rule{
		Name: "R-WIRE",
		Clause: "C09 'decoding an encoding reproduces the value' / C15 'reads consume exactly what was written': for every codec pair the sequence of primitive writes (width class, loop nesting, " +
			"optional parts, alternatives) extracted from the encoder equals the sequence of primitive reads extracted from the decoder. Callees that receive the coder are inlined; function-valued " +
			"locals become alternatives. Does not cover: the values written (bit-exact coordinates), loop trip counts, which alternative is chosen.",
		Min: 12,
		Run: runWire,
	})
	core.Register(&core.Rule{
		Name:   "R-DETERMINISTIC",
		Clause: "C09 'encoding the same value twice yields the same bytes': no function reachable from an Encode method ranges over a map or calls into math/rand, time or os.",
		Min:    9,
		Run:    runDeterministic,
	})
}

// wshape is an I/O shape: "prim" (width class), "seq", "loop", "alt".
type wshape struct {
	kind string
	w    string
	kids []*wshape
}

func (s *wshape) String() string {
	if s == nil {
		return "e"
	}
	switch s.kind {
	case "prim":
		return s.w
	case "seq":
		var p []string
		for _, k := range s.kids {
			p = append(p, k.String())
		}
		return strings.Join(p, " ")
	case "loop":
		return "(" + s.kids[0].String() + ")*"
	case "alt":
		var p []string
		for _, k := range s.kids {
			p = append(p, k.String())
		}
		return "{" + strings.Join(p, " | ") + "}"
	}
	return "?"
}

var eps = &wshape{kind: "seq"}

func isEps(s *wshape) bool { return s == nil || (s.kind == "seq" && len(s.kids) == 0) }

func wseq(parts ...*wshape) *wshape {
	var kids []*wshape
	for _, p := range parts {
		if isEps(p) {
			continue
		}
		if p.kind == "seq" {
			kids = append(kids, p.kids...)
		} else {
			kids = append(kids, p)
		}
	}
	if len(kids) == 1 {
		return kids[0]
	}
	return &wshape{kind: "seq", kids: kids}
}

func walt(parts ...*wshape) *wshape {
	m := map[string]*wshape{}
	var add func(p *wshape)
	add = func(p *wshape) {
		if p == nil {
			p = eps
		}
		if p.kind == "alt" {
			for _, k := range p.kids {
				add(k)
			}
			return
		}
		m[p.String()] = p
	}
	for _, p := range parts {
		add(p)
	}
	var keys []string
	for k := range m {
		keys = append(keys, k)
	}
	sort.Strings(keys)
	if len(keys) == 1 {
		return m[keys[0]]
	}
	var kids []*wshape
	for _, k := range keys {
		kids = append(kids, m[k])
	}
	// left-factor a common first element:  {p x | p y} = p {x | y}
	first := func(s *wshape) (*wshape, *wshape) {
		if isEps(s) {
			return nil, nil
		}
		if s.kind == "seq" {
			return s.kids[0], wseq(s.kids[1:]...)
		}
		return s, eps
	}
	h0, _ := first(kids[0])
	if h0 != nil {
		same := true
		var rests []*wshape
		for _, k := range kids {
			h, r := first(k)
			if h == nil || h.String() != h0.String() {
				same = false
				break
			}
			rests = append(rests, r)
		}
		if same {
			return wseq(h0, walt(rests...))
		}
	}
	return &wshape{kind: "alt", kids: kids}
}

func wloop(body *wshape) *wshape {
	if isEps(body) {
		return eps
	}
	return &wshape{kind: "loop", kids: []*wshape{body}}
}

var primWidth = map[string]string{
	"writeBool": "1", "readBool": "1", "writeInt8": "1", "readInt8": "1", "writeUint8": "1", "readUint8": "1",
	"writeInt16": "2", "readInt16": "2",
	"writeInt32": "4", "readInt32": "4", "writeUint32": "4", "readUint32": "4", "writeFloat32": "4f", "readFloat32": "4f",
	"writeInt64": "8", "readInt64": "8", "writeUint64": "8", "readUint64": "8",
	"writeFloat64": "8f", "readFloat64": "8f",
	"writeUvarint": "v", "readUvarint": "v",
}

type wireExtractor struct {
	c       *core.Ctx
	info    *types.Info
	memo    map[*types.Func]*wshape
	active  map[*types.Func]bool
	problem string
}

func isCoderType(t types.Type) bool {
	return core.IsNamed(t, "s2", "encoder") || core.IsNamed(t, "s2", "decoder")
}

// usesCoder reports whether fn takes (or is a method of) a coder.
func usesCoder(fn *types.Func) bool {
	sig := fn.Type().(*types.Signature)
	if sig.Recv() != nil && isCoderType(sig.Recv().Type()) {
		return true
	}
	for i := 0; i < sig.Params().Len(); i++ {
		if isCoderType(sig.Params().At(i).Type()) {
			return true
		}
	}
	return false
}

func (w *wireExtractor) shapeOfFunc(fn *types.Func) *wshape {
	if s, ok := w.memo[fn]; ok {
		return s
	}
	if w.active[fn] {
		w.problem = "recursive codec function " + fn.FullName()
		return eps
	}
	decl := w.c.Decl(fn)
	if decl == nil || decl.Body == nil {
		return eps
	}
	w.active[fn] = true
	defer delete(w.active, fn)
	s := w.shapeOfStmts(decl.Body.List, decl)
	w.memo[fn] = s
	return s
}

// terminates reports whether a statement list always ends in a return.
func terminates(stmts []ast.Stmt) bool {
	if len(stmts) == 0 {
		return false
	}
	switch x := stmts[len(stmts)-1].(type) {
	case *ast.ReturnStmt:
		return true
	case *ast.BlockStmt:
		return terminates(x.List)
	case *ast.IfStmt:
		if x.Else == nil {
			return false
		}
		var el []ast.Stmt
		if b, ok := x.Else.(*ast.BlockStmt); ok {
			el = b.List
		} else {
			el = []ast.Stmt{x.Else}
		}
		return terminates(x.Body.List) && terminates(el)
	}
	return false
}

func (w *wireExtractor) shapeOfStmts(stmts []ast.Stmt, decl *ast.FuncDecl) *wshape {
	if len(stmts) == 0 {
		return eps
	}
	st, rest := stmts[0], stmts[1:]
	switch x := st.(type) {
	case *ast.BlockStmt:
		return w.shapeOfStmts(append(append([]ast.Stmt{}, x.List...), rest...), decl)
	case *ast.IfStmt:
		pre := eps
		if x.Init != nil {
			pre = w.shapeOfStmts([]ast.Stmt{x.Init}, decl)
		}
		cond := w.shapeOfExpr(x.Cond, decl)
		thenS := w.shapeOfStmts(x.Body.List, decl)
		var elseList []ast.Stmt
		if x.Else != nil {
			if b, ok := x.Else.(*ast.BlockStmt); ok {
				elseList = b.List
			} else {
				elseList = []ast.Stmt{x.Else}
			}
		}
		elseS := w.shapeOfStmts(elseList, decl)
		restS := func() *wshape { return w.shapeOfStmts(rest, decl) }
		switch {
		case isEps(thenS) && isEps(elseS):
			// error handling / validation: no I/O in either branch
			return wseq(pre, cond, restS())
		case terminates(x.Body.List) && x.Else == nil:
			return wseq(pre, cond, walt(thenS, restS()))
		case x.Else != nil && terminates(elseList) && !terminates(x.Body.List):
			return wseq(pre, cond, walt(elseS, wseq(thenS, restS())))
		default:
			return wseq(pre, cond, walt(thenS, elseS), restS())
		}
	case *ast.ForStmt:
		pre := eps
		if x.Init != nil {
			pre = w.shapeOfStmts([]ast.Stmt{x.Init}, decl)
		}
		body := w.shapeOfStmts(x.Body.List, decl)
		if x.Cond != nil {
			body = wseq(w.shapeOfExpr(x.Cond, decl), body)
		}
		return wseq(pre, wloop(body), w.shapeOfStmts(rest, decl))
	case *ast.RangeStmt:
		return wseq(w.shapeOfExpr(x.X, decl), wloop(w.shapeOfStmts(x.Body.List, decl)), w.shapeOfStmts(rest, decl))
	case *ast.SwitchStmt:
		pre := eps
		if x.Init != nil {
			pre = w.shapeOfStmts([]ast.Stmt{x.Init}, decl)
		}
		if x.Tag != nil {
			pre = wseq(pre, w.shapeOfExpr(x.Tag, decl))
		}
		var alts []*wshape
		hasDefault := false
		for _, cc := range x.Body.List {
			clause := cc.(*ast.CaseClause)
			if clause.List == nil {
				hasDefault = true
			}
			s := w.shapeOfStmts(clause.Body, decl)
			if terminates(clause.Body) && isEps(s) {
				continue // error case
			}
			alts = append(alts, s)
		}
		_ = hasDefault
		if len(alts) == 0 {
			return wseq(pre, w.shapeOfStmts(rest, decl))
		}
		return wseq(pre, walt(alts...), w.shapeOfStmts(rest, decl))
	case *ast.ReturnStmt:
		var parts []*wshape
		for _, r := range x.Results {
			parts = append(parts, w.shapeOfExpr(r, decl))
		}
		return wseq(parts...) // nothing after a return
	default:
		var parts []*wshape
		ast.Inspect(st, func(n ast.Node) bool {
			if e, ok := n.(ast.Expr); ok {
				parts = append(parts, w.shapeOfExpr(e, decl))
				return false
			}
			return true
		})
		return wseq(append(parts, w.shapeOfStmts(rest, decl))...)
	}
}

// shapeOfExpr extracts the I/O performed while evaluating e (in source order).
func (w *wireExtractor) shapeOfExpr(e ast.Expr, decl *ast.FuncDecl) *wshape {
	var parts []*wshape
	ast.Inspect(e, func(n ast.Node) bool {
		call, ok := n.(*ast.CallExpr)
		if !ok {
			if _, isLit := n.(*ast.FuncLit); isLit {
				return false
			}
			return true
		}
		// arguments are evaluated before the call
		for _, a := range call.Args {
			parts = append(parts, w.shapeOfExpr(a, decl))
		}
		switch f := call.Fun.(type) {
		case *ast.SelectorExpr:
			parts = append(parts, w.shapeOfExpr(f.X, decl))
			if sel, ok := w.info.Selections[f]; ok && sel.Kind() == types.MethodVal {
				fn := sel.Obj().(*types.Func)
				if isCoderType(sel.Recv()) {
					if wd, ok := primWidth[fn.Name()]; ok {
						parts = append(parts, &wshape{kind: "prim", w: wd})
					}
				} else if usesCoder(fn) && strings.HasPrefix(fn.Pkg().Path(), core.GeoPath) {
					parts = append(parts, w.shapeOfFunc(fn))
				}
			}
		case *ast.Ident:
			switch obj := w.info.Uses[f].(type) {
			case *types.Func:
				if usesCoder(obj) {
					parts = append(parts, w.shapeOfFunc(obj))
				}
			case *types.Var:
				// a function-valued local: alternatives of everything assigned to it
				if _, isSig := obj.Type().Underlying().(*types.Signature); isSig {
					var alts []*wshape
					ast.Inspect(decl.Body, func(m ast.Node) bool {
						as, ok := m.(*ast.AssignStmt)
						if !ok {
							return true
						}
						for i, l := range as.Lhs {
							id, ok := l.(*ast.Ident)
							if !ok || i >= len(as.Rhs) {
								continue
							}
							o := w.info.Defs[id]
							if o == nil {
								o = w.info.Uses[id]
							}
							if o != obj {
								continue
							}
							if fn := w.funcOf(as.Rhs[i]); fn != nil {
								alts = append(alts, w.shapeOfFunc(fn))
							}
						}
						return true
					})
					if len(alts) > 0 {
						parts = append(parts, walt(alts...))
					} else {
						w.problem = "call through function value " + f.Name + " with no visible targets"
					}
				}
			}
		}
		return false
	})
	return wseq(parts...)
}

func (w *wireExtractor) funcOf(e ast.Expr) *types.Func {
	switch x := e.(type) {
	case *ast.Ident:
		fn, _ := w.info.Uses[x].(*types.Func)
		return fn
	case *ast.SelectorExpr:
		if sel, ok := w.info.Selections[x]; ok && sel.Kind() == types.MethodVal {
			return sel.Obj().(*types.Func)
		}
		fn, _ := w.info.Uses[x.Sel].(*types.Func)
		return fn
	}
	return nil
}

func runWire(c *core.Ctx) []core.Obligation {
	var obs []core.Obligation
	info := c.Pkgs["s2"].TypesInfo
	type pair struct {
		name     string
		enc, dec *types.Func
	}
	var pairs []pair
	// exported Encode/Decode of the same type
	scope := c.Pkgs["s2"].Types.Scope()
	for _, n := range scope.Names() {
		tn, ok := scope.Lookup(n).(*types.TypeName)
		if !ok {
			continue
		}
		enc, dec := c.LookupFunc("s2", n, "Encode"), c.LookupFunc("s2", n, "Decode")
		if enc != nil && dec != nil && c.Decl(enc) != nil && c.Decl(dec) != nil {
			pairs = append(pairs, pair{tn.Name(), enc, dec})
		}
	}
	if len(pairs) < 9 {
		obs = append(obs, core.Ob("R-WIRE", "anchor:codec-types", "-", "", core.Violated, fmt.Sprintf("only %d types with both Encode and Decode found, 9 expected", len(pairs))))
	}
	internal := []struct{ recv, enc, dec string }{
		{"", "encodePointsCompressed", "decodePointsCompressed"},
		{"", "encodeFaces", "decodeFaces"},
		{"", "encodeFaceRun", "decodeFaceRun"},
		{"", "encodeFirstPointFixedLength", "decodeFirstPointFixedLength"},
		{"", "encodePointCompressed", "decodePointCompressed"},
		{"Loop", "encodeCompressed", "decodeCompressed"},
		{"Polygon", "encodeLossless", "decode"},
		{"Polygon", "encodeCompressed", "decodeCompressed"},
	}
	for _, ip := range internal {
		enc, dec := c.LookupFunc("s2", ip.recv, ip.enc), c.LookupFunc("s2", ip.recv, ip.dec)
		name := ip.enc + "/" + ip.dec
		if ip.recv != "" {
			name = ip.recv + "." + name
		}
		if enc == nil || dec == nil {
			obs = append(obs, core.Ob("R-WIRE", "pair:"+name, "-", "", core.Violated, "unresolved anchor"))
			continue
		}
		pairs = append(pairs, pair{name, enc, dec})
	}
	for _, p := range pairs {
		w := &wireExtractor{c: c, info: info, memo: map[*types.Func]*wshape{}, active: map[*types.Func]bool{}}
		es := w.shapeOfFunc(p.enc)
		ds := w.shapeOfFunc(p.dec)
		// Polygon.encodeLossless writes the version byte that Polygon.Decode (not decode) reads: compare modulo that prefix.
		if p.name == "Polygon.encodeLossless/decode" || p.name == "Polygon.encodeCompressed/decodeCompressed" {
			if es.kind == "seq" && len(es.kids) > 0 && es.kids[0].String() == "1" {
				es = wseq(es.kids[1:]...)
			}
		}
		construct := "pair:" + p.name
		site := c.Pos(p.dec.Pos())
		switch {
		case w.problem != "":
			obs = append(obs, core.Ob("R-WIRE", construct, site, p.dec.FullName(), core.Undecided, w.problem))
		case isEps(es) || isEps(ds):
			obs = append(obs, core.Ob("R-WIRE", construct, site, p.dec.FullName(), core.Violated, "no primitive I/O found in one of the two sides (anchor lost)"))
		case es.String() == ds.String():
			obs = append(obs, core.Ob("R-WIRE", construct, site, p.dec.FullName(), core.Discharged, "writer and reader agree on the wire shape: "+core.ShortDetail(es.String())))
		default:
			obs = append(obs, core.Ob("R-WIRE", construct, site, p.dec.FullName(), core.Violated,
				fmt.Sprintf("the encoder writes  %s  but the decoder reads  %s  : after the first difference every later field is decoded from the wrong bytes", es.String(), ds.String())))
		}
	}
	return obs
}

func runDeterministic(c *core.Ctx) []core.Obligation {
	var obs []core.Obligation
	var roots []*types.Func
	scope := c.Pkgs["s2"].Types.Scope()
	for _, n := range scope.Names() {
		if enc := c.LookupFunc("s2", n, "Encode"); enc != nil && c.Decl(enc) != nil {
			roots = append(roots, enc)
		}
	}
	for _, r := range roots {
		fn := c.SSA(r)
		reach := c.ReachableFuncs([]*ssa.Function{fn}, nil)
		var bad []string
		for f := range reach {
			decl := (*ast.FuncDecl)(nil)
			if o, ok := f.Object().(*types.Func); ok {
				decl = c.Decl(o)
			}
			if decl == nil || decl.Body == nil {
				continue
			}
			info := c.Pkgs[f.Pkg.Pkg.Name()].TypesInfo
			ast.Inspect(decl.Body, func(n ast.Node) bool {
				switch x := n.(type) {
				case *ast.RangeStmt:
					if _, isMap := info.TypeOf(x.X).Underlying().(*types.Map); isMap {
						bad = append(bad, fmt.Sprintf("range over a map in %s at %s", core.FuncName(f), c.Pos(x.Pos())))
					}
				case *ast.SelectorExpr:
					if id, ok := x.X.(*ast.Ident); ok {
						if pn, ok := info.Uses[id].(*types.PkgName); ok {
							switch pn.Imported().Path() {
							case "math/rand", "time", "os", "crypto/rand":
								bad = append(bad, fmt.Sprintf("use of %s.%s in %s", pn.Imported().Path(), x.Sel.Name, core.FuncName(f)))
							}
						}
					}
				}
				return true
			})
		}
		construct := "encode-deterministic:" + r.FullName()
		construct = strings.ReplaceAll(construct, core.GeoPath+"/", "")
		if len(bad) > 0 {
			sort.Strings(bad)
			obs = append(obs, core.Ob("R-DETERMINISTIC", construct, c.Pos(r.Pos()), r.FullName(), core.Violated, strings.Join(bad, "; ")))
		} else {
			obs = append(obs, core.Ob("R-DETERMINISTIC", construct, c.Pos(r.Pos()), r.FullName(), core.Discharged,
				fmt.Sprintf("%d functions reachable; none ranges over a map or consults randomness, time or the environment", len(reach))))
		}
	}
	return obs
}
