package rules

import (
	"fmt"
	"go/ast"
	"go/types"
	"strings"

	"verif/checker/core"
)

// R-FIELDPAIR: added after round-3 seed C09-r3m1 (encoder writes subregionBound where the decoder reads bound).

func init() {
	core.Register(&core.Rule{
		Name: "R-FIELDPAIR",
		Clause: "C09 'decode(encode(x)) = x': the k-th item a type's encoder writes from a field of the value is the k-th item its decoder stores into the same field. For every encoder/decoder " +
			"pair the source-order list of receiver fields that are written (argument of a primitive write or receiver of a nested encode) is compared with the list of receiver fields that are " +
			"read (target of a primitive read or receiver of a nested decode); items that are not plain receiver fields match anything; lists of different length are not compared.",
		Min: 6,
		Run: runFieldPair,
	})
}

// fieldPathOf returns "F.G" when e (through conversions, parens, & and *) is a field path of the receiver.
func fieldPathOf(info *types.Info, e ast.Expr, recv types.Object) string {
	for {
		switch x := e.(type) {
		case *ast.ParenExpr:
			e = x.X
			continue
		case *ast.StarExpr:
			e = x.X
			continue
		case *ast.UnaryExpr:
			e = x.X
			continue
		case *ast.CallExpr:
			if len(x.Args) == 1 {
				if tv, ok := info.Types[x.Fun]; ok && tv.IsType() {
					e = x.Args[0]
					continue
				}
				// math.Float64bits(f) and friends
				if sel, ok := x.Fun.(*ast.SelectorExpr); ok {
					if id, ok := sel.X.(*ast.Ident); ok {
						if _, isPkg := info.Uses[id].(*types.PkgName); isPkg {
							e = x.Args[0]
							continue
						}
					}
				}
			}
		}
		break
	}
	var parts []string
	for {
		switch x := e.(type) {
		case *ast.SelectorExpr:
			if s, ok := info.Selections[x]; !ok || s.Kind() != types.FieldVal {
				return ""
			}
			parts = append([]string{x.Sel.Name}, parts...)
			e = x.X
			continue
		case *ast.ParenExpr:
			e = x.X
			continue
		case *ast.StarExpr:
			e = x.X
			continue
		case *ast.Ident:
			if recv != nil && info.Uses[x] == recv && len(parts) > 0 {
				return strings.Join(parts, ".")
			}
			return ""
		}
		return ""
	}
}

func codecItems(info *types.Info, fd *ast.FuncDecl, reading bool) []string {
	var recv types.Object
	if fd.Recv != nil && len(fd.Recv.List) == 1 && len(fd.Recv.List[0].Names) == 1 {
		recv = info.Defs[fd.Recv.List[0].Names[0]]
	}
	var items []string
	add := func(p string) {
		if p == "" {
			p = "?"
		}
		items = append(items, p)
	}
	var visit func(n ast.Node) bool
	visit = func(n ast.Node) bool {
		switch x := n.(type) {
		case *ast.FuncLit:
			return false
		case *ast.AssignStmt:
			if reading && len(x.Lhs) == 1 && len(x.Rhs) == 1 {
				if primRead(info, x.Rhs[0]) {
					add(fieldPathOf(info, x.Lhs[0], recv))
					return false
				}
			}
		case *ast.CallExpr:
			sel, ok := x.Fun.(*ast.SelectorExpr)
			if !ok {
				return true
			}
			s, ok := info.Selections[sel]
			if !ok || s.Kind() != types.MethodVal {
				return true
			}
			name := sel.Sel.Name
			if isCoderType(s.Recv()) {
				if _, isPrim := primWidth[name]; isPrim {
					if !reading && len(x.Args) == 1 {
						add(fieldPathOf(info, x.Args[0], recv))
					} else if reading {
						add("?") // a primitive read whose value is not stored directly
					}
					return false
				}
				return true
			}
			// nested codec on a field: x.F.encode(e) / x.F.decode(d)
			lower := strings.ToLower(name)
			if (!reading && lower == "encode") || (reading && lower == "decode") {
				if p := fieldPathOf(info, sel.X, recv); p != "" {
					add(p)
					return false
				}
			}
		}
		return true
	}
	ast.Inspect(fd.Body, visit)
	return items
}

func primRead(info *types.Info, e ast.Expr) bool {
	found := false
	// the read may be wrapped in conversions: int(d.readUvarint()), math.Float64frombits(d.readUint64())
	for {
		e = ast.Unparen(e)
		call, ok := e.(*ast.CallExpr)
		if !ok {
			return false
		}
		if sel, ok := call.Fun.(*ast.SelectorExpr); ok {
			if s, ok := info.Selections[sel]; ok && s.Kind() == types.MethodVal && isCoderType(s.Recv()) {
				_, found = primWidth[sel.Sel.Name]
				return found
			}
		}
		if len(call.Args) != 1 {
			return false
		}
		e = call.Args[0]
	}
}

func runFieldPair(c *core.Ctx) []core.Obligation {
	var obs []core.Obligation
	info := c.Pkgs["s2"].TypesInfo
	type pair struct {
		name     string
		enc, dec *types.Func
	}
	var pairs []pair
	scope := c.Pkgs["s2"].Types.Scope()
	for _, n := range scope.Names() {
		if _, ok := scope.Lookup(n).(*types.TypeName); !ok {
			continue
		}
		for _, nm := range [][2]string{{"encode", "decode"}, {"encodeCompressed", "decodeCompressed"}, {"encodeLossless", "decode"}} {
			enc, dec := c.LookupFunc("s2", n, nm[0]), c.LookupFunc("s2", n, nm[1])
			if enc != nil && dec != nil && c.Decl(enc) != nil && c.Decl(dec) != nil {
				pairs = append(pairs, pair{n + "." + nm[0] + "/" + nm[1], enc, dec})
			}
		}
	}
	for _, p := range pairs {
		w := codecItems(info, c.Decl(p.enc), false)
		r := codecItems(info, c.Decl(p.dec), true)
		if len(w) == 0 && len(r) == 0 {
			continue
		}
		// an encoder that also writes the leading version byte its decoder's caller consumes
		if len(w) == len(r)+1 && w[0] == "?" {
			w = w[1:]
		}
		construct := "fields:" + p.name
		site := c.Pos(p.dec.Pos())
		if len(w) != len(r) || len(w) == 0 {
			o := core.Ob("R-FIELDPAIR", construct, site, p.dec.FullName(), core.Discharged,
				fmt.Sprintf("not decided - the two sides list a different number of items (writer %v, reader %v)", w, r))
			o.Trivial = true
			obs = append(obs, o)
			continue
		}
		bad := ""
		named := 0
		for i := range w {
			if w[i] == "?" || r[i] == "?" {
				continue
			}
			named++
			if w[i] != r[i] && bad == "" {
				bad = fmt.Sprintf("item %d is written from field %s but read into field %s", i+1, w[i], r[i])
			}
		}
		switch {
		case bad != "":
			obs = append(obs, core.Ob("R-FIELDPAIR", construct, site, p.dec.FullName(), core.Violated, bad+": the decoded value differs from the encoded one in both fields"))
		case named == 0:
			o := core.Ob("R-FIELDPAIR", construct, site, p.dec.FullName(), core.Discharged, "not decided - no item is a plain receiver field on both sides")
			o.Trivial = true
			obs = append(obs, o)
		default:
			obs = append(obs, core.Ob("R-FIELDPAIR", construct, site, p.dec.FullName(), core.Discharged,
				fmt.Sprintf("%d items, %d of them plain receiver fields on both sides, all paired: %s", len(w), named, strings.Join(w, " "))))
		}
	}
	return obs
}
