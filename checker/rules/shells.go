package rules

import (
	"fmt"
	"go/token"
	"sort"
	"strings"

	"golang.org/x/tools/go/ssa"

	"verif/checker/core"
)

func init() {
	core.Register(&core.Rule{
		Name: "R-SHELLSEL",
		Clause: "C07 'polygon relations through boundary comparison and complement shells': the helpers behind Polygon.Contains/Intersects select the loops their contract names - " +
			"excludesNonCrossingShells examines exactly the shells; excludesNonCrossingComplementShells examines loop 0 (reversed) plus exactly the holes; containsBoundary rejects on compareBoundary <= 0 " +
			"and excludesBoundary on >= 0 (decided by folding the guard over the finite domain of its inputs); the range iterators seek to the start of / past the end of the other iterator's leaf range.",
		Min: 6,
		Run: runShellSel,
	})
}

// walkDecided follows the CFG from b, deciding branch conditions with decide (which returns value, known).
// It stops with "action" when a block calls a function named action, "back" when it returns to stopAt, and
// "return:<v>" at a return of a constant, "?" when a condition is unknown.
func walkDecided(b *ssa.BasicBlock, stopAt *ssa.BasicBlock, action string, decide func(ssa.Value) (bool, bool)) string {
	for steps := 0; steps < 64 && b != nil; steps++ {
		for _, in := range b.Instrs {
			if ci, ok := in.(ssa.CallInstruction); ok {
				if f := core.StaticCallee(ci); f != nil && f.Name() == action {
					return "action"
				}
				if bi, ok := ci.Common().Value.(*ssa.Builtin); ok && "builtin:"+bi.Name() == action {
					return "action"
				}
			}
		}
		switch last := b.Instrs[len(b.Instrs)-1].(type) {
		case *ssa.If:
			v, ok := decideCond(last.Cond, decide)
			if !ok {
				return "?"
			}
			if v {
				b = b.Succs[0]
			} else {
				b = b.Succs[1]
			}
		case *ssa.Jump:
			b = b.Succs[0]
		case *ssa.Return:
			if len(last.Results) == 1 {
				if k, ok := last.Results[0].(*ssa.Const); ok && k.Value != nil {
					return "return:" + k.Value.String()
				}
			}
			return "return"
		default:
			return "?"
		}
		if b == stopAt {
			return "back"
		}
	}
	return "?"
}

func decideCond(c ssa.Value, decide func(ssa.Value) (bool, bool)) (bool, bool) {
	if v, ok := decide(c); ok {
		return v, true
	}
	if u, ok := c.(*ssa.UnOp); ok && u.Op == token.NOT {
		v, ok := decideCond(u.X, decide)
		return !v, ok
	}
	return false, false
}

func runShellSel(c *core.Ctx) []core.Obligation {
	var obs []core.Obligation
	report := func(construct string, fn *ssa.Function, diffs []string, good string) {
		if fn == nil {
			obs = append(obs, core.Ob("R-SHELLSEL", construct, "-", "", core.Violated, "unresolved anchor"))
			return
		}
		sort.Strings(diffs)
		if len(diffs) == 0 {
			obs = append(obs, core.Ob("R-SHELLSEL", construct, c.Pos(fn.Pos()), core.FuncName(fn), core.Discharged, good))
		} else {
			obs = append(obs, core.Ob("R-SHELLSEL", construct, c.Pos(fn.Pos()), core.FuncName(fn), core.Violated, strings.Join(diffs, "; ")))
		}
	}
	// the loop body entry: successor of the range loop header that is inside the loop
	loopBody := func(fn *ssa.Function, containing string) (header, body *ssa.BasicBlock) {
		var callBlock *ssa.BasicBlock
		core.AllInstrs(fn, func(in ssa.Instruction) {
			if ci, ok := in.(ssa.CallInstruction); ok {
				if f := core.StaticCallee(ci); f != nil && f.Name() == containing {
					callBlock = in.Block()
				}
			}
		})
		if callBlock == nil {
			return nil, nil
		}
		h, blocks := loopContaining(fn, callBlock)
		if h == nil {
			return nil, nil
		}
		for _, s := range h.Succs {
			if blocks[s] {
				return h, s
			}
		}
		return nil, nil
	}
	isHoleCall := func(v ssa.Value) bool {
		call, ok := v.(*ssa.Call)
		if !ok {
			return false
		}
		f := core.StaticCallee(call)
		return f != nil && f.Name() == "IsHole"
	}
	// (1) excludesNonCrossingShells: process iff !IsHole
	{
		fn := c.Fn("s2", "Polygon", "excludesNonCrossingShells")
		var diffs []string
		if fn != nil {
			h, body := loopBody(fn, "containsNonCrossingBoundary")
			if body == nil {
				diffs = append(diffs, "loop over the other polygon's loops not found")
			} else {
				for _, hole := range []bool{false, true} {
					got := walkDecided(body, h, "containsNonCrossingBoundary", func(v ssa.Value) (bool, bool) {
						if isHoleCall(v) {
							return hole, true
						}
						return false, false
					})
					want := "action"
					if hole {
						want = "back"
					}
					if got != want {
						diffs = append(diffs, fmt.Sprintf("a loop with IsHole()=%v is %s, expected %s (only shells are examined)", hole, got, want))
					}
				}
			}
		}
		report("excludesNonCrossingShells:selection", fn, diffs, "examines exactly the loops that are not holes")
	}
	// (2) excludesNonCrossingComplementShells: process iff j == 0 || IsHole; reverse = (j == 0)
	{
		fn := c.Fn("s2", "Polygon", "excludesNonCrossingComplementShells")
		var diffs []string
		if fn != nil {
			h, body := loopBody(fn, "containsNonCrossingBoundary")
			if body == nil {
				diffs = append(diffs, "loop over the other polygon's loops not found")
			} else {
				for _, first := range []bool{true, false} {
					for _, hole := range []bool{false, true} {
						got := walkDecided(body, h, "containsNonCrossingBoundary", func(v ssa.Value) (bool, bool) {
							if isHoleCall(v) {
								return hole, true
							}
							// comparisons of the range index with 0
							if bo, ok := v.(*ssa.BinOp); ok {
								if k, isK := core.ConstInt(bo.Y); isK && k == 0 {
									switch bo.Op {
									case token.GTR, token.NEQ:
										return !first, true
									case token.EQL, token.LEQ:
										return first, true
									}
								}
							}
							return false, false
						})
						want := "back"
						if first || hole {
							want = "action"
						}
						if got != want {
							diffs = append(diffs, fmt.Sprintf("loop with (index==0)=%v, IsHole()=%v is %s, expected %s (the complement's shells are loop 0 plus exactly the holes)", first, hole, got, want))
						}
					}
				}
				// reverse argument is j == 0
				core.AllInstrs(fn, func(in ssa.Instruction) {
					if call, ok := in.(*ssa.Call); ok {
						if f := core.StaticCallee(call); f != nil && f.Name() == "containsNonCrossingBoundary" {
							rev := call.Call.Args[2]
							bo, isBo := rev.(*ssa.BinOp)
							okRev := false
							if isBo && bo.Op == token.EQL {
								if k, isK := core.ConstInt(bo.Y); isK && k == 0 {
									okRev = true
								}
							}
							if !okRev {
								diffs = append(diffs, "the 'reverse' argument is not (index == 0): only loop 0 of the complement is traversed backwards")
							}
						}
					}
				})
			}
		}
		report("excludesNonCrossingComplementShells:selection", fn, diffs, "examines loop 0 (reversed) plus exactly the holes")
	}
	// (3) containsBoundary / excludesBoundary over compareBoundary in {-1,0,+1}
	for _, cs := range []struct {
		name   string
		reject map[int64]bool
	}{
		{"containsBoundary", map[int64]bool{-1: true, 0: true, 1: false}},
		{"excludesBoundary", map[int64]bool{-1: false, 0: true, 1: true}},
	} {
		fn := c.Fn("s2", "Polygon", cs.name)
		var diffs []string
		if fn != nil {
			var cmpCall *ssa.Call
			core.AllInstrs(fn, func(in ssa.Instruction) {
				if call, ok := in.(*ssa.Call); ok {
					if f := core.StaticCallee(call); f != nil && f.Name() == "compareBoundary" {
						cmpCall = call
					}
				}
			})
			if cmpCall == nil {
				diffs = append(diffs, "compareBoundary is no longer consulted")
			} else {
				h, _ := loopContaining(fn, cmpCall.Block())
				for _, v := range []int64{-1, 0, 1} {
					got := walkDecided(cmpCall.Block(), h, "\x00none", func(cond ssa.Value) (bool, bool) {
						bo, ok := cond.(*ssa.BinOp)
						if !ok || bo.X != ssa.Value(cmpCall) {
							return false, false
						}
						k, isK := core.ConstInt(bo.Y)
						if !isK {
							return false, false
						}
						switch bo.Op {
						case token.LEQ:
							return v <= k, true
						case token.LSS:
							return v < k, true
						case token.GEQ:
							return v >= k, true
						case token.GTR:
							return v > k, true
						case token.EQL:
							return v == k, true
						case token.NEQ:
							return v != k, true
						}
						return false, false
					})
					rejected := got == "return:false"
					if rejected != cs.reject[v] {
						diffs = append(diffs, fmt.Sprintf("compareBoundary = %+d leads to %s, but the contract rejects exactly %v", v, got, rejectSet(cs.reject)))
					}
				}
			}
		}
		report(cs.name+":three-way", fn, diffs, fmt.Sprintf("rejects exactly for compareBoundary in %v", rejectSet(cs.reject)))
	}
	// (4) range iterators: seekTo seeks to target.rangeMin; seekBeyond seeks to target.rangeMax.Next()
	for _, cs := range []struct {
		name, field string
		next        bool
	}{{"seekTo", "rangeMin", false}, {"seekBeyond", "rangeMax", true}} {
		fn := c.Fn("s2", "rangeIterator", cs.name)
		var diffs []string
		if fn != nil {
			found := false
			core.AllInstrs(fn, func(in ssa.Instruction) {
				call, ok := in.(*ssa.Call)
				if !ok {
					return
				}
				f := core.StaticCallee(call)
				if f == nil || f.Name() != "seek" {
					return
				}
				found = true
				arg := call.Call.Args[1]
				if cs.next {
					nx, isCall := arg.(*ssa.Call)
					if !isCall || core.StaticCallee(nx) == nil || core.StaticCallee(nx).Name() != "Next" {
						diffs = append(diffs, "seekBeyond must seek to target.rangeMax.Next()")
						return
					}
					arg = nx.Call.Args[0]
				}
				fr, isF := core.AsFieldLoad(arg)
				if !isF || fr.Name != cs.field || rootParam(fr.Base, 0) != 1 {
					diffs = append(diffs, fmt.Sprintf("%s must position the iterator relative to the TARGET's %s (the first leaf / last leaf of its cell), not its cell id or the receiver's range: index cells that start inside the target's cell but before its centre would be skipped", cs.name, cs.field))
				}
			})
			if !found {
				diffs = append(diffs, "no seek call")
			}
		}
		report("rangeIterator."+cs.name+":seek-target", fn, diffs, fmt.Sprintf("seeks relative to target.%s", cs.field))
	}
	return obs
}

func rejectSet(m map[int64]bool) []int64 {
	var out []int64
	for k, v := range m {
		if v {
			out = append(out, k)
		}
	}
	sort.Slice(out, func(i, j int) bool { return out[i] < out[j] })
	return out
}

func init() {
	core.Register(&core.Rule{
		Name: "R-PARTITION",
		Clause: "C13/C07 'after a polygon has been inverted any number of times': Polygon.Invert rebuilds the loop list from three pieces - the inverted loop, its former siblings and its former " +
			"children - whose index conditions must partition all loop indices: folded over every position of an index relative to (best, lastDescendant(best)), each loop is kept exactly once.",
		Min: 1,
		Run: runPartition,
	})
}

func runPartition(c *core.Ctx) []core.Obligation {
	var obs []core.Obligation
	fn := c.Fn("s2", "Polygon", "Invert")
	if fn == nil {
		return append(obs, core.Ob("R-PARTITION", "Polygon.Invert", "-", "", core.Violated, "unresolved anchor"))
	}
	var last *ssa.Call
	core.AllInstrs(fn, func(in ssa.Instruction) {
		if call, ok := in.(*ssa.Call); ok {
			if f := core.StaticCallee(call); f != nil && f.Name() == "LastDescendant" {
				last = call
			}
		}
	})
	if last == nil {
		return append(obs, core.Ob("R-PARTITION", "Polygon.Invert", c.Pos(fn.Pos()), core.FuncName(fn), core.Violated, "LastDescendant(best) is no longer computed"))
	}
	best := last.Call.Args[1]
	// explicit append of Loop(best)
	explicit := 0
	loops := loopsOf(fn)
	inAnyLoop := func(b *ssa.BasicBlock) bool {
		for _, body := range loops {
			if body[b] {
				return true
			}
		}
		return false
	}
	core.AllInstrs(fn, func(in ssa.Instruction) {
		call, ok := in.(*ssa.Call)
		if !ok {
			return
		}
		if bi, ok := call.Call.Value.(*ssa.Builtin); !ok || bi.Name() != "append" || inAnyLoop(in.Block()) || len(call.Call.Args) < 2 {
			return
		}
		for _, v := range variadicElems(call.Call.Args[1]) {
			if lc, ok := v.(*ssa.Call); ok {
				if f := core.StaticCallee(lc); f != nil && f.Name() == "Loop" && lc.Call.Args[1] == best {
					explicit++
				}
			}
		}
	})
	// the rebuilding loops: loops whose body appends and compares the index with best / lastBest
	type rebuild struct{ header, body *ssa.BasicBlock }
	var rbs []rebuild
	for h, body := range loops {
		hasAppend, usesBest := false, false
		for b := range body {
			for _, in := range b.Instrs {
				if call, ok := in.(*ssa.Call); ok {
					if bi, ok := call.Call.Value.(*ssa.Builtin); ok && bi.Name() == "append" {
						hasAppend = true
					}
				}
				if bo, ok := in.(*ssa.BinOp); ok && (bo.Y == best || bo.Y == ssa.Value(last)) {
					usesBest = true
				}
			}
		}
		if hasAppend && usesBest && h.Dominates(h) {
			for _, s := range h.Succs {
				if body[s] {
					rbs = append(rbs, rebuild{h, s})
				}
			}
		}
	}
	sort.Slice(rbs, func(i, j int) bool { return rbs[i].header.Index < rbs[j].header.Index })
	var diffs []string
	if len(rbs) != 2 {
		diffs = append(diffs, fmt.Sprintf("%d rebuilding loops found, 2 expected (former siblings, former children)", len(rbs)))
	}
	if explicit != 1 {
		diffs = append(diffs, fmt.Sprintf("the inverted loop is appended %d times outside the loops, expected once", explicit))
	}
	if len(diffs) == 0 {
		for _, lastBest := range []int64{2, 4} {
			for i := int64(0); i <= lastBest+1; i++ {
				count := 0
				if i == 2 {
					count += explicit
				}
				for _, rb := range rbs {
					got := walkDecided(rb.body, rb.header, "builtin:append", func(cond ssa.Value) (bool, bool) {
						bo, ok := cond.(*ssa.BinOp)
						if !ok {
							return false, false
						}
						var rhs int64
						switch {
						case bo.Y == best:
							rhs = 2
						case bo.Y == ssa.Value(last):
							rhs = lastBest
						default:
							return false, false
						}
						switch bo.Op {
						case token.LSS:
							return i < rhs, true
						case token.LEQ:
							return i <= rhs, true
						case token.GTR:
							return i > rhs, true
						case token.GEQ:
							return i >= rhs, true
						case token.EQL:
							return i == rhs, true
						case token.NEQ:
							return i != rhs, true
						}
						return false, false
					})
					switch got {
					case "action":
						count++
					case "back":
					default:
						diffs = append(diffs, "a rebuilding loop's condition could not be folded ("+got+")")
					}
				}
				if count != 1 {
					diffs = append(diffs, fmt.Sprintf("with best=2, lastDescendant=%d the loop at index %d is kept %d times", lastBest, i, count))
				}
			}
		}
	}
	sort.Strings(diffs)
	if len(diffs) == 0 {
		obs = append(obs, core.Ob("R-PARTITION", "Polygon.Invert:loops-kept-once", c.Pos(fn.Pos()), core.FuncName(fn), core.Discharged,
			"the inverted loop, the former siblings (i < best or i > last) and the former children (best < i <= last) partition all loop indices"))
	} else {
		if len(diffs) > 4 {
			diffs = diffs[:4]
		}
		obs = append(obs, core.Ob("R-PARTITION", "Polygon.Invert:loops-kept-once", c.Pos(fn.Pos()), core.FuncName(fn), core.Violated,
			"Invert does not keep every loop exactly once: "+strings.Join(diffs, "; ")))
	}
	// nesting depths: the former siblings move one level down, the former descendants one level up - every depth
	// written in Invert is the loop's own depth shifted by one, once in each direction (the inverted loop itself
	// keeps depth 0). A depth that is overwritten with a constant loses the hole/shell parity of deeper descendants.
	var plus, minus, other int
	var otherDesc string
	core.AllInstrs(fn, func(in ssa.Instruction) {
		st, ok := in.(*ssa.Store)
		if !ok {
			return
		}
		fr, ok := core.AsFieldAddr(st.Addr)
		if !ok || fr.Name != "depth" {
			return
		}
		bo, isBo := st.Val.(*ssa.BinOp)
		if isBo && (bo.Op == token.ADD || bo.Op == token.SUB) {
			k, isK := core.ConstInt(bo.Y)
			ld, isLd := core.AsFieldLoad(bo.X)
			if isK && k == 1 && isLd && ld.Name == "depth" && ld.Base == fr.Base {
				if bo.Op == token.ADD {
					plus++
				} else {
					minus++
				}
				return
			}
		}
		other++
		otherDesc = st.Val.String()
	})
	switch {
	case other > 0:
		obs = append(obs, core.Ob("R-PARTITION", "Polygon.Invert:depth-shift", c.Pos(fn.Pos()), core.FuncName(fn), core.Violated,
			"Invert overwrites a loop's depth ("+otherDesc+") instead of shifting it by one: loops nested two or more levels below the inverted shell end up with the wrong hole/shell parity, so Area and Centroid add what they should subtract"))
	case plus == 1 && minus == 1:
		obs = append(obs, core.Ob("R-PARTITION", "Polygon.Invert:depth-shift", c.Pos(fn.Pos()), core.FuncName(fn), core.Discharged, "former siblings: depth+1, former descendants: depth-1"))
	default:
		obs = append(obs, core.Ob("R-PARTITION", "Polygon.Invert:depth-shift", c.Pos(fn.Pos()), core.FuncName(fn), core.Violated,
			fmt.Sprintf("expected one depth+1 and one depth-1 in Invert, found %d and %d", plus, minus)))
	}
	obs = append(obs, invertCasesExclusive(c, fn))
	return obs
}

// invertCasesExclusive (after round-7 seed C13-r7m2, the `return` that ends the empty-polygon case of Polygon.Invert
// dropped): Invert has two special cases that replace the whole receiver (empty -> full, full -> empty). They undo
// each other, so no path may run both: once *p has been overwritten as a whole, no second whole-value store to *p is
// reachable.
func invertCasesExclusive(c *core.Ctx, fn *ssa.Function) core.Obligation {
	const construct = "Polygon.Invert:special-cases-exclusive"
	if len(fn.Params) == 0 {
		return core.Ob("R-PARTITION", construct, "-", "", core.Violated, "unresolved anchor")
	}
	recv := fn.Params[0]
	var stores []*ssa.Store
	core.AllInstrs(fn, func(in ssa.Instruction) {
		if st, ok := in.(*ssa.Store); ok && st.Addr == ssa.Value(recv) {
			stores = append(stores, st)
		}
	})
	if len(stores) < 2 {
		return core.Ob("R-PARTITION", construct, c.Pos(fn.Pos()), core.FuncName(fn), core.Violated, fmt.Sprintf("unresolved anchor: %d whole-value stores to the receiver, 2 expected (empty -> full, full -> empty)", len(stores)))
	}
	for _, a := range stores {
		for _, b := range stores {
			if a == b {
				continue
			}
			reach := false
			if a.Block() == b.Block() {
				reach = core.InstrBlockIndex(a) < core.InstrBlockIndex(b)
			} else {
				for _, s := range a.Block().Succs {
					if core.ReachFrom(s)[b.Block()] {
						reach = true
					}
				}
			}
			if reach {
				return core.Ob("R-PARTITION", construct, c.Pos(b.Pos()), core.FuncName(fn), core.Violated,
					"after the receiver has been replaced as a whole at "+c.Pos(a.Pos())+" the other special case at "+c.Pos(b.Pos())+" is still reachable: inverting the empty polygon makes it full and then, falling through, empty again - an odd number of inversions of a polygon without loops no longer gives the full polygon")
			}
		}
	}
	return core.Ob("R-PARTITION", construct, c.Pos(fn.Pos()), core.FuncName(fn), core.Discharged, fmt.Sprintf("%d whole-value replacements of the receiver, none reachable from another", len(stores)))
}
