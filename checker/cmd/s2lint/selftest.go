package main

import (
	"encoding/json"
	"fmt"
	"os"
	"os/exec"
	"path/filepath"
	"regexp"
	"sort"
	"strings"
)

// selfTest (thorough tier) shows that the rules of a property are armed and not over-eager: on scratch copies of the
// tree under analysis (never on /repo itself) it applies every confirmed seeded change written against the property and
// expects the check to fire, and applies every behaviour-preserving refactor and expects silence. The outcome is
// evidence about the checker; it never turns into a VIOLATION of the property.
type selfTestResult struct {
	SeedsApplied     int      `json:"seeded_changes_applied"`
	SeedsDetected    int      `json:"seeded_changes_detected"`
	SeedsMissed      []string `json:"seeded_changes_missed"`
	SeedsSkipped     []string `json:"seeded_changes_not_applicable"`
	RefactorsApplied int      `json:"refactors_applied"`
	RefactorsSilent  int      `json:"refactors_silent"`
	RefactorAlarms   []string `json:"refactor_alarms"`
	Samples          []string `json:"samples"`
}

func copyTree(src, dst string) error {
	if err := os.MkdirAll(dst, 0o755); err != nil {
		return err
	}
	for _, name := range []string{"go.mod", "go.sum", "r1", "r2", "r3", "s1", "s2"} {
		cmd := exec.Command("cp", "-r", filepath.Join(src, name), dst)
		if out, err := cmd.CombinedOutput(); err != nil {
			return fmt.Errorf("cp %s: %v %s", name, err, out)
		}
	}
	return nil
}

// runOn runs the quick tier on a scratch copy. The build output of the copy (export data of its packages) goes to a
// build cache of its own under the scratch root, which is removed with it; the user's cache would otherwise grow by
// some 25 MB per variant.
func runOn(self, prop, repo, verif, gocache string) (fired bool, fails []string) {
	cmd := exec.Command(self, "-prop", prop, "-tier", "quick", "-repo", repo, "-verif", verif, "-noreplay")
	cmd.Env = append(os.Environ(), "GOCACHE="+gocache)
	out, _ := cmd.CombinedOutput()
	re := regexp.MustCompile(`(?m)^FAIL (\S+)`)
	for _, m := range re.FindAllStringSubmatch(string(out), -1) {
		fails = append(fails, m[1])
	}
	return cmd.ProcessState != nil && cmd.ProcessState.ExitCode() == 1, fails
}

func selfTest(prop, repo, verif string) selfTestResult {
	var res selfTestResult
	self, _ := os.Executable()
	tmpRoot, err := os.MkdirTemp("", "s2lint-selftest-")
	if err != nil {
		return res
	}
	defer os.RemoveAll(tmpRoot)
	try := func(patch string) (applied, fired bool, fails []string) {
		dir := filepath.Join(tmpRoot, "tree")
		os.RemoveAll(dir)
		if err := copyTree(repo, dir); err != nil {
			return false, false, nil
		}
		defer os.RemoveAll(dir)
		cmd := exec.Command("git", "apply", patch)
		cmd.Dir = dir
		if err := cmd.Run(); err != nil {
			return false, false, nil
		}
		fired, fails = runOn(self, prop, dir, verif, filepath.Join(tmpRoot, "gocache"))
		return true, fired, fails
	}
	seeds, _ := filepath.Glob(filepath.Join(verif, "seeded", prop+"-*"))
	sort.Strings(seeds)
	for _, d := range seeds {
		name := filepath.Base(d)
		var meta struct {
			Property string `json:"property"`
		}
		if b, err := os.ReadFile(filepath.Join(d, "meta.json")); err == nil {
			json.Unmarshal(b, &meta)
		}
		applied, fired, fails := try(filepath.Join(d, "patch.diff"))
		if !applied {
			res.SeedsSkipped = append(res.SeedsSkipped, name)
			continue
		}
		res.SeedsApplied++
		if fired {
			res.SeedsDetected++
			if len(res.Samples) < 6 && len(fails) > 0 {
				res.Samples = append(res.Samples, name+" -> "+fails[0])
			}
		} else {
			res.SeedsMissed = append(res.SeedsMissed, name)
		}
	}
	refs, _ := filepath.Glob(filepath.Join(verif, "refactors", "*.diff"))
	sort.Strings(refs)
	for _, r := range refs {
		applied, fired, fails := try(r)
		if !applied {
			continue
		}
		res.RefactorsApplied++
		if fired {
			res.RefactorAlarms = append(res.RefactorAlarms, filepath.Base(r)+": "+strings.Join(fails, ","))
		} else {
			res.RefactorsSilent++
		}
	}
	return res
}
