// s2lint decides structural necessary conditions of the properties in
// /verif/properties.jsonl by static analysis of the golang/geo source tree.
// It never runs the library.
package main

import (
	"flag"
	"fmt"
	"os"
	"path/filepath"
	"sort"
	"strings"
	"time"

	"verif/checker/core"
	"verif/checker/rules"
)

func main() {
	prop := flag.String("prop", "", "property id (C01..C20)")
	tier := flag.String("tier", "quick", "quick | thorough")
	evidence := flag.String("evidence", "", "evidence file to write")
	repo := flag.String("repo", "/repo", "root of the golang/geo working tree")
	verif := flag.String("verif", "/verif", "root of the verification directory")
	only := flag.String("rule", "", "run only this rule (debugging)")
	verbose := flag.Bool("v", false, "print every obligation")
	list := flag.Bool("list", false, "list properties and their rules")
	noReplay := flag.Bool("noreplay", false, "do not write a replay file (used by the self-test on scratch copies)")
	dumpTwins := flag.Int("dump-twins", 0, "print groups of same-shaped functions with at least this many tokens (maintenance)")
	dumpConsts := flag.Bool("dump-consts", false, "print the error-constant table extracted from the source (maintenance)")
	flag.Parse()

	if t := os.Getenv("VERIF_TIER"); t != "" && !isFlagSet("tier") {
		*tier = t
	}
	if *list {
		for _, p := range rules.PropertyIDs() {
			fmt.Printf("%s: %s\n", p, strings.Join(rules.Properties[p].Rules, " "))
		}
		return
	}
	if *dumpTwins > 0 {
		ctx, err := core.Load(*repo)
		if err != nil {
			fmt.Fprintln(os.Stderr, err)
			os.Exit(2)
		}
		rules.DumpTwinCandidates(ctx, *dumpTwins)
		return
	}
	if *dumpConsts {
		ctx, err := core.Load(*repo)
		if err != nil {
			fmt.Fprintln(os.Stderr, err)
			os.Exit(2)
		}
		rules.DumpConsts(ctx)
		return
	}
	spec, ok := rules.Properties[*prop]
	if !ok {
		fmt.Fprintf(os.Stderr, "unknown or unclaimed property %q\n", *prop)
		os.Exit(2)
	}
	if *tier != "quick" && *tier != "thorough" {
		fmt.Fprintf(os.Stderr, "bad tier %q\n", *tier)
		os.Exit(2)
	}
	seed := 0
	fmt.Sscanf(os.Getenv("VERIF_SEED"), "%d", &seed)

	t0 := time.Now()
	outDir := filepath.Join(*verif, "out")
	replay := filepath.Join(outDir, *prop+".violations.json")
	if *noReplay {
		replay = filepath.Join(os.TempDir(), fmt.Sprintf("s2lint-replay-%d.json", os.Getpid()))
		defer os.Remove(replay)
	} else {
		os.Remove(replay)
	}

	fail := func(msg string) {
		// Loader failures are violations of "the checker can see the program".
		fmt.Printf("s2lint: %s\n", msg)
		core.WriteJSON(replay, map[string]interface{}{"property": *prop, "error": msg})
		writeEvidence(*evidence, *prop, *tier, seed, spec, nil, nil, 1, time.Since(t0).Seconds(), nil, msg)
		fmt.Printf("VIOLATION property=%s replay=%s\n", *prop, replay)
		os.Exit(1)
	}

	known, err := core.LoadKnown(filepath.Join(*verif, "known_findings.json"))
	if err != nil {
		fail("cannot read known_findings.json: " + err.Error())
	}
	ctx, err := core.Load(*repo)
	if err != nil {
		fail("cannot load " + *repo + ": " + err.Error())
	}
	ctx.Tier = *tier
	ctx.VerifDir = *verif
	fmt.Printf("s2lint: property %s tier %s: loaded %d packages, %d files, %d functions, %d SSA blocks from %s (%.1fs)\n",
		*prop, *tier, len(ctx.All), ctx.NumFiles, ctx.NumFuncs, ctx.NumBlocks, *repo, time.Since(t0).Seconds())

	rules.InstallLateObligations()
	var results []core.RuleResult
	for _, rn := range spec.Rules {
		if *only != "" && rn != *only {
			continue
		}
		r := core.GetRule(rn)
		if r == nil {
			fail("rule " + rn + " is not registered")
		}
		if r.ThoroughOnly && *tier != "thorough" {
			continue
		}
		res := core.RunRule(ctx, r)
		if subs := spec.Only[rn]; len(subs) > 0 {
			var kept []core.Obligation
			for _, o := range res.Obligations {
				keep := strings.HasSuffix(o.Key, ":instance-count") || strings.HasSuffix(o.Key, ":checker-panic") || strings.Contains(o.Key, "anchor")
				for _, sub := range subs {
					if strings.Contains(o.Key, sub) {
						keep = true
					}
				}
				if keep {
					kept = append(kept, o)
				}
			}
			res.Obligations = kept
			res.Total = len(kept)
			res.NonTrivial = 0
			for _, o := range kept {
				if !o.Trivial {
					res.NonTrivial++
				}
			}
		}
		results = append(results, res)
	}

	knownByKey := map[string]core.KnownFinding{}
	for _, k := range known.Known {
		if k.Property == *prop {
			knownByKey[k.Key] = k
		}
	}
	var violations []core.Obligation
	var knownHits []core.Obligation
	for ri := range results {
		res := &results[ri]
		for i := range res.Obligations {
			o := &res.Obligations[i]
			if o.Status == core.Discharged {
				if *verbose {
					fmt.Printf("  ok   %-70s %s  %s\n", o.Key, o.Site, core.ShortDetail(o.Detail))
				}
				continue
			}
			if k, ok := knownByKey[o.Key]; ok && o.Status == core.Violated {
				o.Known = k.What
				knownHits = append(knownHits, *o)
				continue
			}
			res.Failed++
			violations = append(violations, *o)
		}
		fmt.Printf("  rule %-16s instances=%d nontrivial=%d (min %d) failed=%d  %.2fs\n", res.Rule, res.Total, res.NonTrivial, res.Min, res.Failed, res.WallS)
	}
	sort.SliceStable(knownHits, func(i, j int) bool { return knownHits[i].Key < knownHits[j].Key })
	for _, o := range knownHits {
		fmt.Printf("KNOWN-FINDING: property=%s %s [%s at %s: %s]\n", *prop, o.Known, o.Key, o.Site, core.ShortDetail(o.Detail))
	}
	for _, o := range violations {
		fmt.Printf("FAIL %s\n     at %s in %s\n     %s: %s\n", o.Key, o.Site, o.Func, o.Status, o.Detail)
	}
	var st *selfTestResult
	if *tier == "thorough" && !*noReplay {
		r := selfTest(*prop, *repo, *verif)
		st = &r
		fmt.Printf("  self-test on scratch copies: %d/%d seeded changes against %s detected (missed: %v; not applicable: %v); %d/%d behaviour-preserving refactors silent %v\n",
			r.SeedsDetected, r.SeedsApplied, *prop, r.SeedsMissed, r.SeedsSkipped, r.RefactorsSilent, r.RefactorsApplied, r.RefactorAlarms)
	}
	selfTestEvidence = st
	wall := time.Since(t0).Seconds()
	writeEvidence(*evidence, *prop, *tier, seed, spec, ctx, results, len(violations), wall, knownHits, "")
	if len(violations) > 0 {
		core.WriteJSON(replay, map[string]interface{}{
			"property":   *prop,
			"tier":       *tier,
			"violations": violations,
			"how_to_replay": fmt.Sprintf("%s -prop %s -tier %s -repo %s -v   (re-derives every obligation from the current source)",
				os.Args[0], *prop, *tier, *repo),
		})
		fmt.Printf("VIOLATION property=%s replay=%s\n", *prop, replay)
		os.Exit(1)
	}
	fmt.Printf("s2lint: property %s: all obligations discharged (%d known findings) in %.1fs\n", *prop, len(knownHits), wall)
}

var selfTestEvidence *selfTestResult

func isFlagSet(name string) bool {
	set := false
	flag.Visit(func(f *flag.Flag) {
		if f.Name == name {
			set = true
		}
	})
	return set
}

func writeEvidence(path, prop, tier string, seed int, spec rules.PropertySpec, ctx *core.Ctx, results []core.RuleResult,
	nviol int, wall float64, known []core.Obligation, loadErr string) {
	if path == "" {
		return
	}
	total, discharged, nontrivial := 0, 0, 0
	distinct := map[string]bool{}
	var samples []interface{}
	var perRule []interface{}
	for _, res := range results {
		nsample := 0
		for _, o := range res.Obligations {
			total++
			if o.Status == core.Discharged {
				discharged++
			}
			if !o.Trivial {
				nontrivial++
				distinct[o.Key] = true
				if nsample < 3 && o.Status == core.Discharged {
					nsample++
					samples = append(samples, map[string]string{"key": o.Key, "site": o.Site, "func": o.Func, "status": o.Status, "why": core.ShortDetail(o.Detail)})
				}
			}
			if o.Status != core.Discharged {
				samples = append(samples, map[string]string{"key": o.Key, "site": o.Site, "func": o.Func, "status": o.Status, "known_finding": o.Known, "why": core.ShortDetail(o.Detail)})
			}
		}
		perRule = append(perRule, map[string]interface{}{
			"rule": res.Rule, "clause": res.Clause, "instances": res.Total, "nontrivial": res.NonTrivial,
			"min_instances": res.Min, "failed": res.Failed, "wall_s": res.WallS,
		})
	}
	cov := map[string]interface{}{
		"explanation": spec.Explanation +
			" Every obligation is decided from /repo's current source (type-checked syntax, SSA, call graph, constant evaluation); the library is never executed." +
			" NOT covered: " + spec.NotCovered,
		"obligations":         total,
		"discharged":          discharged,
		"evaluations":         total,
		"distinct_nontrivial": len(distinct),
		"rule": "one evaluation = one (rule, construct) obligation derived from the source on this run; it is non-trivial when the rule had something to check at that construct " +
			"(e.g. a decoder that allocates, a lock region that calls out); distinct = distinct obligation keys",
		"samples":        samples,
		"rules":          perRule,
		"known_findings": len(known),
		"checker_cmd":    strings.Join(os.Args, " "),
		"exhaustive":     false,
	}
	if selfTestEvidence != nil {
		cov["self_test"] = selfTestEvidence
	}
	if ctx != nil {
		cov["analysed"] = map[string]interface{}{
			"packages": len(ctx.All), "files": ctx.NumFiles, "functions": ctx.NumFuncs, "ssa_blocks": ctx.NumBlocks,
			"callgraph_edges": ctx.CallGraphEdges(),
		}
	}
	if loadErr != "" {
		cov["load_error"] = loadErr
		if samples == nil {
			cov["samples"] = []interface{}{map[string]string{"error": loadErr}}
		}
	}
	ev := core.Evidence{
		PropertyID: prop, Tier: tier, Seed: seed, Level: "other", Coverage: cov,
		Assumptions: append([]string{
			"go/packages + go/types + go/ssa (golang.org/x/tools v0.29.0) faithfully represent the program the Go compiler builds",
			"the call graph (VTA over CHA) over-approximates dynamic dispatch; reflection and unsafe are not used by the library (checked by R-GLOBAL's import scan)",
		}, spec.Assumptions...),
		WallS: wall, Violations: nviol,
	}
	if err := core.WriteJSON(path, ev); err != nil {
		fmt.Fprintf(os.Stderr, "cannot write evidence: %v\n", err)
	}
}
