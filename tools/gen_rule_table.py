#!/usr/bin/env python3
"""Prints the 'rules per property' table of DESIGN.md section 9 from the evidence files of the last run."""
import json, glob
print("| Property | Rules (obligations attributed to the property on the current tree; non-trivial ones in brackets when fewer) |")
print("|---|---|")
for f in sorted(glob.glob('/verif/evidence/C*.json')):
    e = json.load(open(f))
    parts = []
    for r in e['coverage']['rules']:
        n, nt = r['instances'], r['nontrivial']
        parts.append(f"{r['rule']} ({n}" + (f", {nt} decided" if nt != n else "") + ")")
    print(f"| {e['property_id']} | {', '.join(parts)} |")
