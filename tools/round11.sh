#!/bin/bash
# usage: round6.sh <ID>...  : confirm the eleventh-round seeds of the given properties and record the first-try verdict
cd /verif
for id in "$@"; do
  for m in m1 m2 m3; do
    [ -d /tmp/wt12/$id/seeded/$m ] || continue
    SEED_BASE=/tmp/wt12 SEED_PREFIX=r11 python3 tools/confirm_seed.py $id $m 2>&1 | tail -1 | python3 -c "import sys,json; d=json.loads(sys.stdin.read()); print(d['property'], d['mutant'], 'confirmed' if d['confirmed'] else 'NOT CONFIRMED')"
  done
done
names=""
for id in "$@"; do for m in r11m1 r11m2 r11m3; do [ -d seeded/$id-$m ] && names="$names $id-$m"; done; done
python3 tools/seed_matrix.py $names 2>&1 | grep -v "detected by" | tee -a seeded/ROUND11_FIRST_TRY.txt | cut -c1-220
