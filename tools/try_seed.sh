#!/bin/bash
# usage: try_seed.sh <patch.diff> <prop> [<prop> ...]
# Applies the patch to /repo, runs the quick checks, and restores /repo. Prints a one-line verdict per property.
set -u
patch="$1"; shift
cd /repo || exit 2
if ! git diff --quiet; then echo "repo dirty"; exit 2; fi
if ! git apply "$patch"; then echo "APPLY-FAILED $patch"; exit 3; fi
for p in "$@"; do
  out=$(/verif/bin/s2lint -prop "$p" -tier "${TIER:-quick}" 2>&1)
  rc=$?
  if [ $rc -ne 0 ]; then
    echo "[$p] DETECTED rc=$rc"
    echo "$out" | grep -A2 "^FAIL" | cut -c1-${WIDTH:-260} | head -${LINES_MAX:-12}
  else
    echo "[$p] missed"
  fi
done
git -C /repo checkout -- . 
