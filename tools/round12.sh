#!/bin/bash
# usage: round6.sh <ID>...  : confirm the twelfth-round seeds of the given properties and record the first-try verdict
cd /verif
for id in "$@"; do
  for m in m1 m2; do
    [ -d /tmp/wt13/$id/seeded/$m ] || continue
    SEED_BASE=/tmp/wt13 SEED_PREFIX=r12 python3 tools/confirm_seed.py $id $m 2>&1 | tail -1 | python3 -c "import sys,json; d=json.loads(sys.stdin.read()); print(d['property'], d['mutant'], 'confirmed' if d['confirmed'] else 'NOT CONFIRMED')"
  done
done
names=""
for id in "$@"; do for m in r12m1 r12m2 r12m3; do [ -d seeded/$id-$m ] && names="$names $id-$m"; done; done
python3 tools/seed_matrix.py $names 2>&1 | grep -v "detected by" | tee -a seeded/ROUND12_FIRST_TRY.txt | cut -c1-220
