#!/bin/bash
# usage: round6.sh <ID>...  : confirm the tenth-round seeds of the given properties and record the first-try verdict
cd /verif
for id in "$@"; do
  for m in m1 m2 m3; do
    [ -d /tmp/wt11/$id/seeded/$m ] || continue
    SEED_BASE=/tmp/wt11 SEED_PREFIX=r10 python3 tools/confirm_seed.py $id $m 2>&1 | tail -1 | python3 -c "import sys,json; d=json.loads(sys.stdin.read()); print(d['property'], d['mutant'], 'confirmed' if d['confirmed'] else 'NOT CONFIRMED')"
  done
done
names=""
for id in "$@"; do for m in r10m1 r10m2 r10m3; do [ -d seeded/$id-$m ] && names="$names $id-$m"; done; done
python3 tools/seed_matrix.py $names 2>&1 | grep -v "detected by" | tee -a seeded/ROUND10_FIRST_TRY.txt | cut -c1-220
