#!/usr/bin/env python3
"""Applies each behaviour-preserving refactor in /verif/refactors to /repo, checks that the repository's own suite
still passes (so the refactor really preserves behaviour as far as the suite can tell), runs every quick check and
requires silence, then restores /repo."""
import glob, json, os, re, subprocess, sys
from concurrent.futures import ThreadPoolExecutor
PROPS = [c["property_id"] for c in json.load(open("/verif/MANIFEST.json"))["checks"]]
ENV = dict(os.environ, GOFLAGS="-mod=mod", GOPROXY="off", GOSUMDB="off", GOTOOLCHAIN="local")
def run_prop(p):
    r = subprocess.run([os.environ.get("S2LINT", "/verif/bin/s2lint"), "-prop", p, "-tier", "quick"], capture_output=True, text=True)
    return p, r.returncode, re.findall(r"^FAIL (\S+)", r.stdout, re.M)
bad = 0
for d in sorted(glob.glob("/verif/refactors/*.diff")):
    name = os.path.basename(d)
    if subprocess.run(["git", "-C", "/repo", "apply", d]).returncode != 0:
        print(name, "DOES NOT APPLY"); bad += 1; continue
    try:
        suite = subprocess.run("go test -vet=off -count=1 ./...", shell=True, cwd="/repo", env=ENV, capture_output=True, text=True)
        with ThreadPoolExecutor(8) as ex:
            rs = list(ex.map(run_prop, PROPS))
    finally:
        subprocess.run("git -C /repo checkout -- .", shell=True)
    alarms = {p: f for p, rc, f in rs if rc != 0}
    print(f"{name:40s} suite={'ok' if suite.returncode==0 else 'FAILS'} alarms={alarms if alarms else 'none'}")
    if alarms or suite.returncode != 0: bad += 1
sys.exit(1 if bad else 0)
