#!/usr/bin/env python3
import json, glob, os, re
res = json.load(open('/verif/seeded/RESULTS.json'))
# how each seed fared the FIRST time the checks were run on it (before any change made in response to it)
FIRST = {
 # round 1
 "C01-m1": "missed", "C01-m2": "missed", "C02-m1": "caught (R-CONST)", "C02-m2": "missed", "C03-m1": "caught (R-CONST)", "C03-m2": "caught (R-XSTATE)",
 "C04-m1": "caught (R-INITORDER)", "C04-m2": "missed", "C05-m1": "missed", "C05-m2": "missed", "C06-m1": "missed", "C06-m2": "missed",
 "C07-m1": "missed", "C07-m2": "missed", "C08-m1": "caught (R-SCRATCH)", "C08-m2": "missed", "C09-m1": "missed", "C09-m2": "missed",
 "C10-m1": "missed", "C10-m2": "caught (R-PAIR)", "C13-m1": "caught (R-SCRATCH)", "C13-m2": "missed", "C14-m1": "caught (R-LOCK)", "C14-m2": "caught (R-READONLY)",
 # exploratory round for the five properties that had no claim yet: verdict of the rules that existed then
 "C11-xm1": "missed (no claim yet)", "C11-xm2": "missed (no claim yet)", "C11-xm3": "missed (no claim yet)", "C11-xm4": "missed (no claim yet)",
 "C12-xm1": "caught under C05, C06 (R-CONST); no claim on C12 yet", "C12-xm2": "missed (no claim yet)", "C12-xm3": "caught under C08 (R-CONST); no claim on C12 yet", "C12-xm4": "missed (no claim yet)",
 "C16-xm1": "missed (no claim yet)", "C16-xm2": "missed (no claim yet)", "C16-xm3": "missed (no claim yet)", "C16-xm4": "missed (no claim yet)",
 "C17-xm1": "caught under C08, C12 (R-CONST); no claim on C17 yet", "C17-xm2": "missed (no claim yet)", "C17-xm3": "missed (no claim yet)", "C17-xm4": "missed (no claim yet)",
 "C20-xm1": "missed (no claim yet)", "C20-xm2": "missed (no claim yet)", "C20-xm3": "missed (no claim yet)", "C20-xm4": "missed (no claim yet)",
 "C15-m1": "caught (R-STICKY)", "C15-m2": "missed", "C18-m1": "caught (R-SIBTREE)", "C18-m2": "missed", "C19-m1": "caught (R-ORDER)", "C19-m2": "missed",
}
import itertools
for l in itertools.chain(open('/verif/seeded/ROUND2_FIRST_TRY.txt'), open('/verif/seeded/ROUND3_FIRST_TRY.txt'), open('/verif/seeded/ROUND4_FIRST_TRY.txt'), open('/verif/seeded/ROUND5_FIRST_TRY.txt'), open('/verif/seeded/ROUND6_FIRST_TRY.txt'), open('/verif/seeded/ROUND7_FIRST_TRY.txt'), open('/verif/seeded/ROUND8_FIRST_TRY.txt'), open('/verif/seeded/ROUND9_FIRST_TRY.txt'), open('/verif/seeded/ROUND10_FIRST_TRY.txt'), open('/verif/seeded/ROUND11_FIRST_TRY.txt'), *( [open('/verif/seeded/ROUND12_FIRST_TRY.txt')] if __import__('os').path.exists('/verif/seeded/ROUND12_FIRST_TRY.txt') else [])):
    m = re.match(r"(\S+)\s+own=(\S+)\s*(.*?)\s+others=(.*)", l)
    if not m: continue
    name, own, keys, others = m.groups()
    if own == "YES":
        FIRST[name] = "caught (" + keys.split(":")[0] + ")"
    elif others.strip() not in ("[]", ""):
        FIRST[name] = "missed by own check (caught under " + others.strip().strip("[]").replace("'", "") + ")"
    else:
        FIRST[name] = "missed"
print("| seed | change (file: function) | needs | first run | now caught by |")
print("|---|---|---|---|---|")
for name in sorted(res):
    meta = json.load(open(f'/verif/seeded/{name}/meta.json'))
    summ = meta['summary'].replace("|", "/")
    short = summ[:150] + ("…" if len(summ) > 150 else "")
    needs = meta['needs'].replace("|", "/")
    needs = needs[:110] + ("…" if len(needs) > 110 else "")
    r = res[name]
    own = r['detected_by'].get(r['property'], [])
    keys = sorted(set(k.split(':')[0] for k in own))
    now = ", ".join(keys) if keys else ("**missed**" if not r['detected_by'] else "only under " + ",".join(sorted(r['detected_by'])))
    print(f"| {name} | {short} | {needs} | {FIRST.get(name,'?')} | {now} |")
