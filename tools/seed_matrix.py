#!/usr/bin/env python3
"""For every confirmed seeded change in /verif/seeded/<ID>-*mN: copies /repo's working tree (go.mod, go.sum and the
package directories) to a scratch directory outside /repo and /verif, applies the change there (git apply), runs every
quick check against the copy (s2lint -repo <copy>), records which obligations fail and removes the copy. /repo itself
is only read. Writes seeded/RESULTS.json and prints a table. Names given on the command line restrict the run and are
merged into the existing RESULTS.json. S2LINT selects the binary (default /verif/bin/s2lint); JOBS the parallelism."""
import json, os, subprocess, sys, glob, re, shutil, tempfile
from concurrent.futures import ThreadPoolExecutor

PROPS = [c["property_id"] for c in json.load(open("/verif/MANIFEST.json"))["checks"]]
S2LINT = os.environ.get("S2LINT", "/verif/bin/s2lint")
JOBS = int(os.environ.get("JOBS", "6"))
# OWN_ONLY=1: run only the check of the property a change was written against (twenty times faster); what other
# properties' checks said about the change is kept from the previous RESULTS.json
OWN_ONLY = os.environ.get("OWN_ONLY", "") == "1"
PREV = json.load(open("/verif/seeded/RESULTS.json")) if os.path.exists("/verif/seeded/RESULTS.json") else {}
ENV = dict(os.environ, GOFLAGS="-mod=mod", GOPROXY="off", GOSUMDB="off", GOTOOLCHAIN="local")
ENV.pop("GOWORK", None)
# the scratch copies' build output goes to a cache of its own, removed at the end of the run
CACHE_ROOT = tempfile.mkdtemp(prefix="s2seedcache-")
ENV["GOCACHE"] = os.path.join(CACHE_ROOT, "gocache")

BASEFAILS = {}

def run_prop(repo, p):
    env = ENV if repo not in ("/repo", os.environ.get("SEED_SRC", "/repo")) else {k: v for k, v in ENV.items() if k != "GOCACHE"}
    r = subprocess.run([S2LINT, "-prop", p, "-tier", "quick", "-repo", repo, "-noreplay"], capture_output=True, text=True, env=env)
    fails = re.findall(r"^FAIL (\S+)", r.stdout, re.M)
    if repo not in ("/repo", os.environ.get("SEED_SRC", "/repo")) and p in BASEFAILS:
        fails = [f for f in fails if f not in BASEFAILS[p]]
        return p, (1 if fails else 0), fails
    return p, r.returncode, fails

def copy_tree(dst):
    os.makedirs(dst)
    for name in ["go.mod", "go.sum", "r1", "r2", "r3", "s1", "s2"]:
        src = os.path.join(os.environ.get("SEED_SRC", "/repo"), name)  # SEED_SRC: a clean worktree when /repo itself is busy
        if os.path.isdir(src):
            shutil.copytree(src, os.path.join(dst, name))
        else:
            shutil.copy(src, dst)

def one_seed(d):
    name = os.path.basename(d)
    prop = name.split("-")[0]
    root = tempfile.mkdtemp(prefix="s2seed-")
    tree = os.path.join(root, "tree")
    try:
        copy_tree(tree)
        if subprocess.run(["git", "apply", d + "/patch.diff"], cwd=tree, capture_output=True).returncode != 0:
            return name, {"error": "patch does not apply"}
        rs = [run_prop(tree, p) for p in (PROPS if not OWN_ONLY else [prop])]
    finally:
        shutil.rmtree(root, ignore_errors=True)
    det = {p: fails for p, rc, fails in rs if rc != 0}
    if OWN_ONLY:
        for p, fails in PREV.get(name, {}).get("detected_by", {}).items():
            if p != prop:
                det[p] = fails
    return name, {"property": prop, "detected_by_own_property": prop in det, "detected_by": det}

def main():
    src = os.environ.get("SEED_SRC", "/repo")
    if subprocess.run(f"git -C {src} diff --quiet", shell=True).returncode != 0:
        print("repo dirty"); sys.exit(2)
    with ThreadPoolExecutor(JOBS) as ex:
        base = list(ex.map(lambda p: run_prop(src, p), PROPS))
    global BASEFAILS
    for p, rc, fails in base:
        if rc != 0:
            if os.environ.get("ALLOW_BASELINE", "") != "1":
                print("BASELINE FAILS", p, fails); sys.exit(1)
            # an older checker binary on a tree repaired since: what already fails on the unchanged tree is not counted
            print("baseline fails (ignored for every change):", p, fails)
            BASEFAILS[p] = set(fails)
    only = sys.argv[1:]
    dirs = [d for d in sorted(glob.glob("/verif/seeded/C*-*m[0-9]")) if not only or os.path.basename(d) in only]
    results = {}
    with ThreadPoolExecutor(JOBS) as ex:
        for name, r in ex.map(one_seed, dirs):
            results[name] = r
            if "error" in r:
                print(f"{name:8s} ERROR {r['error']}"); continue
            det, prop = r["detected_by"], r["property"]
            own = det.get(prop, [])
            others = sorted(k for k in det if k != prop)
            print(f"{name:8s} own={'YES' if prop in det else 'no ':3s} {', '.join(own)[:110]}  others={others}", flush=True)
    if (only or OWN_ONLY) and os.path.exists("/verif/seeded/RESULTS.json"):
        merged = json.load(open("/verif/seeded/RESULTS.json"))
        merged.update(results)
    else:
        merged = results
    json.dump(merged, open("/verif/seeded/RESULTS.json", "w"), indent=1, sort_keys=True)
    n = len(results); k = sum(1 for v in results.values() if v.get("detected_by_own_property"))
    a = sum(1 for v in results.values() if v.get("detected_by"))
    print(f"{k}/{n} detected by the check of the property they were written against; {a}/{n} by some check")

try:
    main()
finally:
    shutil.rmtree(CACHE_ROOT, ignore_errors=True)
