#!/usr/bin/env python3
"""Applies every confirmed seeded change in /verif/seeded/<ID>-mN to /repo (git apply), runs all quick checks in
parallel, records which obligations fail, and restores /repo (git checkout -- .). Writes seeded/RESULTS.json and
prints a table. /repo must be clean."""
import json, os, subprocess, sys, glob, re
from concurrent.futures import ThreadPoolExecutor

PROPS = [c["property_id"] for c in json.load(open("/verif/MANIFEST.json"))["checks"]]

def run_prop(p):
    r = subprocess.run(["/verif/bin/s2lint", "-prop", p, "-tier", "quick"], capture_output=True, text=True)
    fails = re.findall(r"^FAIL (\S+)", r.stdout, re.M)
    return p, r.returncode, fails

def main():
    if subprocess.run("git -C /repo diff --quiet", shell=True).returncode != 0:
        print("repo dirty"); sys.exit(2)
    # baseline must be clean
    with ThreadPoolExecutor(8) as ex:
        base = list(ex.map(run_prop, PROPS))
    for p, rc, fails in base:
        if rc != 0:
            print("BASELINE FAILS", p, fails); sys.exit(1)
    results = {}
    only = sys.argv[1:] 
    for d in sorted(glob.glob("/verif/seeded/C*-*m[0-9]")):
        name = os.path.basename(d)
        if only and name not in only: continue
        prop = name.split("-")[0]
        if subprocess.run(["git", "-C", "/repo", "apply", d + "/patch.diff"]).returncode != 0:
            results[name] = {"error": "patch does not apply"}; continue
        try:
            with ThreadPoolExecutor(8) as ex:
                rs = list(ex.map(run_prop, PROPS))
        finally:
            subprocess.run("git -C /repo checkout -- .", shell=True)
        det = {p: fails for p, rc, fails in rs if rc != 0}
        results[name] = {"property": prop, "detected_by_own_property": prop in det, "detected_by": det}
        own = det.get(prop, [])
        others = sorted(k for k in det if k != prop)
        print(f"{name:8s} own={'YES' if prop in det else 'no ':3s} {', '.join(own)[:110]}  others={others}")
    if only and os.path.exists("/verif/seeded/RESULTS.json"):
        merged = json.load(open("/verif/seeded/RESULTS.json"))
        merged.update(results)
    else:
        merged = results
    json.dump(merged, open("/verif/seeded/RESULTS.json", "w"), indent=1, sort_keys=True)
    n = len(results); k = sum(1 for v in results.values() if v.get("detected_by_own_property"))
    a = sum(1 for v in results.values() if v.get("detected_by"))
    print(f"{k}/{n} detected by the check of the property they were written against; {a}/{n} by some check")

main()
