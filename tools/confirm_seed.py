#!/usr/bin/env python3
"""confirm_seed.py <ID> <mN> [--keep]  : independently confirms a seeded change produced by a sub-agent
in a scratch worktree of /repo HEAD, and if confirmed copies it to /verif/seeded/<ID>-<mN>/ .
Checks: patch applies; go build + go vet clean; full suite passes with the change; demo fails with the change;
demo passes without the change."""
import json, os, re, shutil, subprocess, sys, tempfile

ENV = dict(os.environ, GOFLAGS="-mod=mod", GOPROXY="off", GOSUMDB="off", GOTOOLCHAIN="local")
ENV.pop("GOWORK", None)
PREFIX = ""

def run(cmd, cwd, timeout=1500):
    p = subprocess.run(cmd, cwd=cwd, shell=True, env=ENV, capture_output=True, text=True, timeout=timeout)
    return p.returncode, (p.stdout + p.stderr)

def main():
    pid, m = sys.argv[1], sys.argv[2]
    base = os.environ.get("SEED_BASE", "/tmp/wt")
    global PREFIX
    PREFIX = os.environ.get("SEED_PREFIX", "")
    src = f"{base}/{pid}/seeded/{m}"
    meta = json.load(open(f"{src}/meta.json"))
    demo_cmd = meta["demo_cmd"]
    mm = re.search(r"cp\s+\S*demo_test\.go\s+(\S+)", demo_cmd)
    if mm:
        dest_rel = mm.group(1)
    else:
        # no cp in the command: the package directory is the one the test is run in
        pm = re.search(r"\./(s2/s2intersect|s2|s1|r1|r2|r3)\b", demo_cmd)
        pk = pm.group(1) if pm else "s2"
        if not pm and re.search(r"cd\s+s1\b", demo_cmd): pk = "s1"
        dest_rel = f"{pk}/zz_seed_{pid}_{m}_test.go"
    pkgdir = os.path.dirname(dest_rel)
    race = "-race" in demo_cmd.split("(")[0]
    tm = re.search(r"-run\s+'?([A-Za-z0-9_$^]+)'?", demo_cmd)
    testname = tm.group(1)
    wt = tempfile.mkdtemp(prefix=f"confirm_{pid}_{m}_", dir="/tmp")
    os.rmdir(wt)
    rc, out = run(f"git -C /repo worktree add -q --detach {wt} HEAD", "/")
    assert rc == 0, out
    result = {"property": pid, "mutant": m, "repo_head": subprocess.check_output("git -C /repo rev-parse --short HEAD", shell=True, text=True).strip()}
    try:
        rc, out = run(f"git apply {src}/patch.diff", wt)
        result["patch_applies"] = rc == 0
        if rc != 0:
            print("patch does not apply:", out); return finish(result, wt, src, False)
        rc, out = run("go build ./... && go vet ./...", wt)
        result["build_vet_clean"] = rc == 0
        rc, out = run("go test -vet=off -count=1 ./...", wt)
        result["suite_passes_with_change"] = rc == 0
        if rc != 0:
            print(out[-2000:])
        os.makedirs(os.path.dirname(f"{wt}/{dest_rel}"), exist_ok=True)
        shutil.copy(f"{src}/demo_test.go", f"{wt}/{dest_rel}")
        arch = "GOARCH=386 " if "GOARCH=386" in demo_cmd else ""
        demo = f"{arch}go test -vet=off {'-race ' if race else ''}-count=1 -run '{testname}' ./{pkgdir}/"
        result["demo_cmd"] = demo
        rc, out = run(demo, wt)
        result["demo_fails_with_change"] = rc != 0 and ("FAIL" in out)
        result["demo_output_with_change"] = out[-1500:]
        run(f"git apply -R {src}/patch.diff", wt)
        rc, out = run(demo, wt)
        result["demo_passes_without_change"] = rc == 0
        if rc != 0:
            print(out[-1500:])
        ok = all(result.get(k) for k in ["patch_applies", "build_vet_clean", "suite_passes_with_change", "demo_fails_with_change", "demo_passes_without_change"])
        return finish(result, wt, src, ok, meta, dest_rel)
    finally:
        run(f"git -C /repo worktree remove --force {wt}", "/")

def finish(result, wt, src, ok, meta=None, dest_rel=None):
    result["confirmed"] = ok
    print(json.dumps({k: v for k, v in result.items() if k != "demo_output_with_change"}))
    if ok:
        dst = f"/verif/seeded/{result['property']}-{PREFIX}{result['mutant']}"
        os.makedirs(dst, exist_ok=True)
        shutil.copy(f"{src}/patch.diff", dst)
        shutil.copy(f"{src}/demo_test.go", dst + "/demo_test.go.txt")
        json.dump({
            "property": result["property"],
            "summary": meta["summary"],
            "needs": meta["needs"],
            "demo_file": "demo_test.go.txt (copy to /repo/" + dest_rel + " to run; stored with .txt so that no Go tool picks it up here)",
            "demo_cmd": result["demo_cmd"],
            "confirmed_by_me": {k: result[k] for k in ["repo_head", "patch_applies", "build_vet_clean", "suite_passes_with_change", "demo_fails_with_change", "demo_passes_without_change"]},
            "what_i_ran": "tools/confirm_seed.py: scratch worktree of /repo HEAD; git apply; go build+vet; full suite; demo with change (fails); git apply -R; demo (passes); worktree removed",
            "author": "independent sub-agent given only the property text and its own worktree",
        }, open(dst + "/meta.json", "w"), indent=1)
    return 0 if ok else 1

sys.exit(main())
