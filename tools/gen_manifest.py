#!/usr/bin/env python3
"""Regenerates /verif/MANIFEST.json from the table below (kept by hand)."""
import json, subprocess

BASELINE = json.load(open('/root/.vp/BASELINE.json'))

CLAIMS = {
 "C16": dict(
   technique="static analysis: data-dependence (symmetry in the arguments), control-dependence of the exact fallback, inconsistent-renaming clone detection and error-constant folding over go/ssa and the syntax tree",
   text="Narrow claim: decides the order-independence machinery and the error constants of the intersection-point computation, not its accuracy. The hemisphere correction of Intersection is a function of all four vertices; a choice between two points by computed distance falls back to comparing the points when the distances tie (projection); the two edges are canonicalised by a consistently renamed pair of statements (R-RENAME over edge_crossings.go); intersectionExact runs only on the 'stable method declined' edge; none of the stable method's error constants (intersectionError, the 32*sqrt(3)*dblError projection term, maxError) is smaller than its derived value.",
   note="Trusts go/ssa and the frozen budget table. Does NOT decide the 8*2^-53 rad accuracy bound, that intersectionStable declines exactly when it must, or the collinear-edge rule of the exact method. Exploratory round of four seeded changes: none caught by pre-existing rules, three of four after the obligations above were added (DESIGN.md section 9.3).",
   design="DESIGN.md section 4 C16 (as built), section 9.3"),
 "C17": dict(
   technique="static analysis: error-constant folding, error-model shape check and unit (chord-angle) lint over go/ssa",
   text="Narrow claim: decides only the documented error model of the distance primitives. The error allowances of interiorDist, minUpdateInteriorDistanceMaxError, ChordAngle.MaxPointError and MaxAngleError are not smaller than their derived values (R-CONST); the error of UpdateMinDistance is max(interior-case error, MaxPointError) (R-ERRMODEL); chord angles are not combined with built-in arithmetic apart from the antipode identity (R-UNITS); no duplicated test, self-comparison or inconsistently renamed clone in the anchored files.",
   note="Trusts go/ssa and the frozen budget table. Does NOT decide that computed distances, projections and interpolations meet the bounds, the interior/vertex case decision, the max-distance-through-antipode logic, or the polyline walks. Exploratory round: one of four seeded changes caught by pre-existing rules, two of four after R-ERRMODEL.",
   design="DESIGN.md section 4 C17 (as built), section 9.3"),
 "C20": dict(
   technique="static analysis: value-flow check that a tolerance is scaled by its documented factor, constructor-establishes-field and unit-conversion obligations, constant-direction checks over go/ssa",
   text="Narrow claim: decides what is visible in code shape about the approximation operators. The tessellator compares its error estimate (which under-estimates by a known factor) with the requested tolerance times tessellationScaleFactor, takes the estimate at both interior fractions and does not raise its tolerance floor; every constructor of a snap function establishes the snap radius it declares; IntLatLngSnapper.SnapPoint converts to degrees before scaling and rounding; the snap radii contain their rounding allowances (R-CONST). On the unchanged tree three of these obligations failed; all three were genuine defects (demonstrated with failing inputs) and were repaired by fix: commits (known_findings.json: D25, D26, D27).",
   note="Trusts go/ssa and the frozen budget table. Does NOT decide the achieved error of tessellation, subsampling or snapping on concrete inputs, projection round trips, or the wedge tracking of SubsampleVertices. Exploratory round: none of four seeded changes caught by pre-existing rules, two of four after R-TOLERANCE.",
   design="DESIGN.md section 0 (D25-D27), section 4 C20 (as built), section 9.3"),
 "C11": dict(
   technique="static analysis: comparison-discipline, sibling (twin) and delegation checks over go/ssa and the syntax tree for the cell-id / cell-union code; must-pass-through of Normalize",
   text="Narrow claim: decides only the clauses of the cell-union algebra that are visible in code shape. Every direct comparison of a cell's inclusive leaf range (RangeMin/RangeMax) in cellid.go and cellunion.go is inclusive on the correct side, and each function of the algebra keeps the number of such comparisons confirmed by reading (R-RANGE); first/last, begin/end and next/previous functions of CellID are mirror images (R-TWIN); a Contains* method never decides by an Intersects* method of its own type (R-NAMEPAIR); constructors that promise a normalised result pass Normalize() on every return and s2intersect normalises the very union it then sweeps (R-NORMUSE); no test is duplicated and no value compared with itself in these files (R-DUP, R-SELFCMP).",
   note="Trusts go/types and go/ssa. Does NOT decide the algebra itself: the sibling-collapse arithmetic of Normalize, the index arithmetic of the two-pointer intersection and recursive difference, the delta stack of CellIndex.Build, the iterators' duplicate suppression, MaxTile's level arithmetic. In an exploratory round of four seeded changes written against C11, none was caught before the C11-specific obligations were added and three of four after (DESIGN.md section 10).",
   design="DESIGN.md section 4 C11 (as built), section 9.3"),
 "C12": dict(
   technique="static analysis: error-budget constant folding, who-may-read rule for a lazily computed field, single-kernel and sibling (twin) checks over go/ssa",
   text="Narrow claim: decides only what is visible in code shape. None of the documented error allowances in cell.go, paddedcell.go, stuv.go and the interior-distance test of edge_distances.go is smaller than its derived value (R-CONST); the lazily computed middle rectangle of a padded cell is read only through its accessor (R-LAZY); the point-to-cell conversion and Cell.ContainsPoint share one projection kernel (R-MIRROR); Cell.latitude/longitude and the CellID begin/end functions are mirror images (R-TWIN); chord angles are not combined with built-in arithmetic except for the antipode identity (R-UNITS).",
   note="Trusts go/types and go/ssa and the frozen budget table. Does NOT decide that the distance functions are attained bounds, that children equal directly constructed cells, or that bounds contain the cell: these are numerical properties of the float kernels. In an exploratory round of four seeded changes written against C12, two were caught by rules that already existed (error budgets), a third by R-LAZY added afterwards, the fourth (a wrong intersection test in DistanceToCell) is not caught.",
   design="DESIGN.md section 4 C12 (as built), section 9.3"),
 "C15": dict(
   technique="static analysis: interprocedural decoder-input taint over go/ssa (field-based heap, validated-write sanitizers) + dominating bound-check / value-range rules",
   text="Structural necessary conditions of total decoding decided for every decoder path: input-sized allocations are limit-checked and non-negative (R-ALLOC), input-chosen indices anywhere in the library are bounds-checked, masked to fit or validated (R-INDEX), input-dependent loops are bounded or consume input (R-TERM), and decoder errors reach the caller (R-STICKY). This is a sound-by-construction argument about all byte strings for those clauses, not a proof of the whole property.",
   note="Trusts go/ssa and the VTA call graph; 64-bit int; sanitizer table (CellID.IsValid). Does not decide nil-dereference/division panics on decoded-but-degenerate geometry.",
   design="DESIGN.md section 3 R-ALLOC/R-INDEX/R-TERM/R-STICKY, section 4 C15"),
 "C14": dict(
   technique="static analysis: lockset / lock-order analysis over go/ssa + VTA call graph (atomic-only status word, balanced mutex, re-entrancy, publish-last ordering, who-may-write shared index state), read-only effect analysis with freshness, iterator typestate, global-state scan",
   text="Race freedom of concurrent read-only queries reduced to its structural conditions, decided for every function of the library: ShapeIndex.status only via sync/atomic; mutex balanced on all paths and never re-acquired from its own critical section; fast path only after an atomic load observed 'fresh'; 'fresh' published after the updates and before unlock; cellMap/cells and the pending bookkeeping written only under the mutex or by documented single-threaded mutators; no function reachable from a read-only entry point stores into a shared geometry/index object it did not allocate itself; every iterator applies pending updates before reading the cell list; no package-level variable written after init. Holds for every schedule because it establishes the lockset and publication order rather than exploring interleavings.",
   note="Trusts the Go memory model for sync/atomic and sync.Mutex, go/ssa and the VTA call graph. Does not decide serial equivalence of the answers. Known finding D3 (lock re-entry on incremental update) is listed in known_findings.json.",
   design="DESIGN.md section 3 R-LOCK/R-WRITERS/R-READONLY/R-SYNCED/R-GLOBAL, section 4 C14"),
 "C13": dict(
   technique="static analysis: call-graph reachability of lock re-entry / unimplemented panics / empty stubs; per-field must-define-before-use of query scratch state; reset-completeness, options save/restore and freshness (escape) analysis over go/ssa",
   text="History independence reduced to structural conditions: no call path from a critical section re-enters the index mutex (no hang); no 'not implemented' panic or empty stub is reachable from the public API; ShapeIndex.Reset assigns every field an operation can change; every EdgeQuery field a query writes is re-assigned before it is read in the next call, reset, or a named cache; configured options are only modified through copies and restored on every exit; every Loop/Polygon creation site establishes its index and the zero-value Polygon is nil-guarded; iterators apply pending updates before reading; no package-level state is written after init.",
   note="Trusts go/ssa and the VTA call graph; tables of argument-contract and defensive panics are confirmed by reading. Known findings D3/D18/D36 are listed in known_findings.json. Does not decide equality of answers across histories.",
   design="DESIGN.md section 3 R-LOCK(c)/R-PANIC/R-RESET/R-SCRATCH/R-OPTS/R-INIT/R-SYNCED/R-GLOBAL, section 4 C13"),

 "C06": dict(
   technique="static analysis: symbolic summaries (ordered decision trees over linear index terms) of sibling Shape accessors compared for equality; inclusive-range comparison discipline over go/ssa",
   text="Decides two structural clauses for every Shape implementation and every cell-range comparison in the library: (R-SIBSHAPE) Edge, ChainEdge, Chain and ChainPosition denote one edge set - ChainEdge(i,j)=Edge(Start(i)+j), Start(ChainPosition(e))+Offset=e, Edge(e)=ChainEdge(ChainPosition(e)) - by comparing normalised symbolic summaries of the accessor bodies; (R-RANGE) every ordered comparison against RangeMin()/RangeMax() treats the leaf range as inclusive, so the query-side cell location cannot lose or gain the boundary leaf. Obligations that need reasoning about a search loop are reported as not decided.",
   note="Trusts go/types and go/ssa. Does not decide that every edge is listed in every padded index cell it meets (clipping arithmetic) nor the crossing tests. Polygon and multi-loop LaxPolygon accessor obligations that depend on search loops are not decided.",
   design="DESIGN.md section 3 R-SIBSHAPE/R-RANGE, section 4 C06"),
 "C07": dict(
   technique="static analysis: control-dependence (edge dominance) and data-flow role checks over go/ssa for the loop-relation walk; bound/sub-region-bound pairing on all paths",
   text="Decides the structural contract the relation algorithms rest on: a cell centre is accepted as a crossing only when it matches both crossing targets with the right polarity and on the right loop's cell; the three relations return their documented target pairs (all six combinations of containsCenterMatches folded); the two loopCrossers mirror each other and pass A's wedge first; containment is rejected only through the sub-region bound, which is rewritten after every write of the bound.",
   note="Trusts go/ssa. Does not decide the set-algebra laws on concrete pairs, the wedge predicates, or loop nesting discovery.",
   design="DESIGN.md section 3 R-CONJ/R-BOUNDGUARD/R-PAIR, section 4 C07"),
 "C08": dict(
   technique="static analysis: loop-cycle, membership-set, family-polarity, post-processing pass-through and argument-pairing rules over go/ssa; per-field must-define-before-use and options freshness",
   text="Decides the structural conditions under which the optimized search can equal the exhaustive scan: enumeration loops repeat their action (no stray break), the duplicate set is consulted with the right polarity and fed, min/max target families never mix and reflect the cap centre exactly in the max family, every findEdges path sorts, uniques and truncates, the queue key is conservative exactly when an error is permitted, each processOrEnqueue call passes a cell id with its own index cell, and per-call state/options do not leak between calls.",
   note="Trusts go/ssa and the VTA call graph; the (loop, action) pair table and the family tables are confirmed by reading. Does not decide that Cell.Distance*/MaxDistance* are true bounds.",
   design="DESIGN.md section 3 R-CYCLE/R-SETUSE/R-POLARITY/R-QUERYFLOW/R-SCRATCH/R-OPTS, section 4 C08"),
 "C10": dict(
   technique="static analysis: path-sensitive pairing of bound / sub-region-bound writes and rejection-guard operand check over go/ssa",
   text="Narrow claim: decides that every write of Loop.bound / Polygon.bound is followed on every non-error path by subregionBound = ExpandForSubregions(bound) (or the same full/empty rectangle), and that containment is never rejected through the plain bound. This is the 'bound grown for sub-regions' clause only.",
   note="Does not decide the sufficiency of the rect-bounder error constants, cap/cell bounds, or convex hulls (numeric).",
   design="DESIGN.md section 3 R-PAIR/R-BOUNDGUARD, section 4 C10"),
 "C01": dict(
   technique="static analysis: constant evaluation of data tables and six-way case tables (go/constant + AST), mirrored-code comparison, global-write scan, error-constant folding",
   text="Narrow claim: the Hilbert-order tables, orientation bits, six face frames with their projection / un-projection / transpose / edge-normal case tables and the bit-interleave tables are mutually consistent (all entries evaluated from the source); lookup tables are written only during initialisation; the mirrored u/v clamps of the neighbour wrap and the re-checks of AdvanceWrap stay mirrored; containment margin and uv error are not weakened. Exhaustive over the table entries, which are finite.",
   note="Does not decide any clause about concrete ids/points (leaf containment, neighbour adjacency, round trips, range partition): identities of 64-bit and float arithmetic over all inputs.",
   design="DESIGN.md section 3 R-TABLE/R-MIRROR/R-GLOBAL/R-CONST, section 4 C01"),
 "C02": dict(
   technique="static analysis: AST rule for unfused products, edge-dominance checks of the predicate staging over go/ssa, polynomial extraction of the symbolic-perturbation sequence compared with the simulation-of-simplicity coefficient sequence (thorough tier: that sequence is derived independently by computer algebra, sympy, from the documented perturbation order), error-constant folding, value-flow pairing of error bounds with the quantities they were derived for",
   text="Decides that the machinery the exactness argument relies on is in place: every product in r3.Vector.Dot/Cross is explicitly converted (no FMA), no error bound is smaller than its derived value, floating-point stages answer only strictly beyond their bound, stages are ordered (exact stage exactly when earlier stages are undecided), each argument swap in exactSign is paired with a sign flip, sign products are taken only for equal signs, and symbolicallyPerturbedSign tests exactly the 13 coefficients of one fixed perturbation in order and never returns zero.",
   note="Trusts the published derivations of the error bounds and math/big. Does not decide results on concrete tuples.",
   design="DESIGN.md section 3 R-FMA/R-STAGES/R-SOS/R-CONST, section 4 C02"),
 "C03": dict(
   technique="static analysis: all-paths state-update (must-update-before-return) analysis with closure capture check, enum outcome folding, error-constant folding over go/ssa",
   text="Decides that the incremental crosser cannot carry stale state: every exit of RestartAt / ChainCrossingSign / crossingSign updates the cached vertex and orientation (deferred closure must capture the variable), the vertex-crossing fallback reads the chain vertex before the call that advances it, the three-valued result is consumed as DoNotCross->false, Cross->true, MaybeCross->VertexCrossing, MaybeCross is returned only behind an endpoint equality, and the tangent rejection bound is not weakened.",
   note="Does not decide the numeric result on concrete quadruples or symmetry under edge reversal.",
   design="DESIGN.md section 3 R-XSTATE/R-CROSSENUM/R-CONST/R-STAGES, section 4 C03"),
 "C04": dict(
   technique="static analysis: accumulator-shape (parity) analysis over SSA phis, initialisation-order reachability, nil-index creation-site analysis, inclusive-range comparison discipline",
   text="Decides the shape all six containment evaluators must share - start from the reference bit, toggle only by an exact crossing test, return the accumulator, restart the crosser on gaps, visit every edge including the closing one, take the vertex-model shortcut only on a true endpoint match - plus the initialisation order the pre-checks rely on (origin bit before use, bound before indexing), a non-nil index on every creation path, and inclusive location of the query point's leaf cell.",
   note="Does not decide that the interior tracker's containsCenter bits are right, nor the tiling clause on concrete cells.",
   design="DESIGN.md section 3 R-PARITY/R-INITORDER/R-INIT/R-RANGE, section 4 C04"),
 "C05": dict(
   technique="static analysis: control-dependence (edge-dominance) checks of the coverer's discard/terminal discipline, enum outcome folding of the cell-relation consumers, symbolic comparison of clamped parameters, loop-cycle rule",
   text="Decides: the coverer drops a cell only when the region does not intersect it (or an interior covering cannot use it) and makes an interior cell terminal only when the region contains it; children are all examined; results are normalised/denormalised with the coverer's own clamped MinLevel/LevelMod; per-cell levels are clamped to MaxLevel before being aligned to LevelMod; Loop/Polygon ContainsCell/IntersectsCell are one-sidedly safe for Disjoint/Subdivided cells and order boundary test before centre containment; Cap's shared cell helper handles the cell containing the cap centre.",
   note="Does not decide the geometric correctness of Cap/Rect/Polyline cell predicates beyond the named clause, nor MaxCells behaviour.",
   design="DESIGN.md section 3 R-COVER/R-CELLREL/R-CYCLE/R-INIT/R-CONST, section 4 C05"),
 "C09": dict(
   technique="static analysis: wire-shape extraction (sequence/loop/option/alternative of primitive widths) from encoder and decoder ASTs with inlining, compared for equality; nondeterminism-source scan; self-comparison lint; structural constants",
   text="Decides the 'writer and reader agree' clause for all 9 codec types and 8 internal pairs: the sequence of primitive fields (width class, loop nesting, optional bound, format alternatives, first-point/other-point alternation) written by each encoder equals the sequence read by its decoder; encoders consult no map order, randomness, time or environment; the cell-centre level test compares si-level with ti-level (no self-comparison); the pi/qi clamp fits the bits the first-point coder writes.",
   note="Does not decide bit-exact reproduction of coordinates, the format choice, or nth-derivative / zig-zag arithmetic.",
   design="DESIGN.md section 3 R-WIRE/R-DETERMINISTIC/R-SELFCMP/R-CONST/R-STICKY, section 4 C09"),
 "C18": dict(
   technique="static analysis: decision-skeleton comparison of mirrored integrals, band/guard edge-dominance checks, Kahan-summation and clamp shape checks, exact literal table for the triangle-area kernel",
   text="Narrow claim: the scalar and vector surface integrals walk the same triangle fan with the same vertex order; Polygon.Area and Centroid weight loops by the same sign; Loop.Area consults IsNormalized exactly in the two ambiguous bands with the right polarity; TurningAngle starts canonically, compensates its sum and clamps to +-(2*Pi-4*epsilon); PointArea's thresholds and the per-vertex curvature error are unchanged.",
   note="Does not decide any numerical clause (values of areas, additivity, accuracy on slivers).",
   design="DESIGN.md section 3 R-SIBTREE/R-AREASIGN/R-CONST, section 4 C18"),
 "C19": dict(
   technique="static analysis: abstract interpretation of the interval source over the finite domain of weak orderings of the operands (order types), exhaustive; component-wise composition check; special-value guard dominance",
   text="For the comparison-only predicates and constructors of r1.Interval (11) and s1.Interval (14) the function's syntax is interpreted over every weak ordering of its operands and +-Pi and the result is compared with point membership of probes on every operand and in every gap: predicates equal their point-set definition, unions contain both operands, intersections contain all common points and nothing outside both, complements cover the rest, results are valid. This is exhaustive over order types and therefore over all real inputs for this code class. r2.Rect/s2.Rect operations are the same 1-D operation on both components; cap radii that may be the special empty value never enter ChordAngle.Add/Sub unguarded.",
   note="Assumes operands of s1.Interval lie in [-Pi, Pi]. The point-set specification is written in the checker. Does not decide the arithmetic of Expanded (only its guards and the final containment test), Project, Center, Length, ApproxEqual, chord-angle and remaining cap arithmetic. Known finding D30 (RectFromLatLng at longitude -Pi) is listed in known_findings.json.",
   design="DESIGN.md section 3 R-ORDER/R-COMPONENT/R-SPECIAL, section 4 C19"),
}

NOT_APPLICABLE = {
 "C11": "every clause is an identity of 64-bit cell-id arithmetic over all multisets of ids; no structural necessary condition visible in code shape (DESIGN.md section 4)",
 "C12": "attainment/one-sidedness of cell distance bounds is numerical behaviour of float kernels; static analysis in reach cannot bound it (DESIGN.md section 4)",
 "C16": "a 8*2^-53 rad accuracy bound on float arithmetic with an exact fallback; not decidable without running or solving the arithmetic (DESIGN.md section 4)",
 "C17": "numerical error bounds of distance/projection/interpolation kernels; no structural slot a rule could own (DESIGN.md section 4)",
 "C20": "achieved approximation error over all edges/tolerances is a runtime quantity; sound float range analysis of transcendental code is not available (DESIGN.md section 4)",
}
# sentences appended to the claim text: obligations added after the third round of seeded changes (DESIGN.md section 9.1)
EXTRA = {
 "C01": " Also: twin functions (ChildBegin/ChildEnd, RangeMin/RangeMax, Next/Prev, NextWrap/PrevWrap) are mirror images under their substitution (R-TWIN); both point-to-(u,v) conversions use the one projection kernel; every same-face shortcut of the neighbour functions holds only for coordinates inside [0, MaxSize) (R-SAMEFACE: guards expanded to linear comparisons), and the face-wrap helper clamps its coordinates before shifting (no 32-bit overflow).",
 "C02": " Also: the incomplete stages (triageSign, stableSign, exactSign, expensiveSign) are called only by the staged evaluators; every sin^2 triage runs only after the cosine triage returned 0; no comparison compares a value with itself next to sibling comparisons; the stable determinant's error bound multiplies the lengths of exactly the two vectors whose cross product is taken, on every path; whatever is compared with maxDeterminantError is a plain (a x b).c; CompareDistances uses the sin^2 comparison only on the side of 90 degrees where it is monotone, with the matching sign. Thorough tier: the perturbation sequence is re-derived with computer algebra (sympy) and compared with the source (R-SOSDERIVE).",
 "C03": " Also: the two-argument wrappers of the incremental crosser leave the chain at their second argument; the cached cross product compared with maxDeterminantError is only ever a plain a x b.",
 "C04": " Also: parity toggles never use CrossingSign(...)==Cross directly (MaybeCross is resolved first), internal ContainsPointQuery constructions use the semi-open model, Polygon.Invert keeps every loop once and only shifts depths by one, and functions that accumulate over all loops of a polygon have no early exit (R-ALLLOOPS).",
 "C05": " Also: every CellUnionBound implementation returns storage allocated by the call (the coverer normalises it in place); no condition is tested twice in a row (R-DUP); the MaxCells merge loop of normalizeCovering replaces cells by an ancestor only behind a comparison with MinLevel; the indexed containment evaluators used by ContainsCell/IntersectsCell toggle parity only with vertex-resolving crossing tests.",
 "C06": " Also: clipUBound/clipVBound and splitUBound/splitVBound are mirror images (R-TWIN); getCellsForEdge visits every face segment; no && chain tests the same expression twice (R-DUP); Polygon.Edge and Polygon.ChainPosition contain the same edge-to-loop search (alpha-renamed syntax trees; only a leaf difference is reported), Polygon.Edge's result is ChainEdge's expression, and ShapeIndex.Reset clears every pending-update field.",
 "C07": " Also: the relation crosser restarts its edge chain exactly when the next edge id is not the previous one plus one.",
 "C08": " Also: the closest-edge and furthest-edge targets agree method by method under the min/max substitution (R-TWIN, 30 pairs); a split cell's back-step children are tested whether or not the forward seek hit the end; chord angles are never combined with the built-in + or - outside s1 (R-UNITS; the only exception is StraightChordAngle - x; the rule's report on minDistance.sub / maxDistance.sub was defect D32, repaired); each updateDistanceTo* of the ShapeIndex targets assigns the persistent sub-query options' distance limit on every path before the sub-query; the priority queue, which outlives the call, is left empty on every exit of the search.",
 "C09": " Also: floats read from the stream are stored unchanged (R-RAWFLOAT); no package-level scratch storage is shared between encoders (R-GLOBAL); fixed-length fields whose byte count is computed from the level have the same count in writer and reader for every level 0..30 and are wide enough (R-WIRECOUNT); the k-th receiver field written is the k-th receiver field read into (R-FIELDPAIR); Polygon.numVertices is only assigned its definition (R-DERIVED); the encoders visit every loop.",
 "C10": " Also: accumulated bounds are only ever updated from their previous value (R-ACCUM); the degenerate-normal branch of RectBounder.AddPoint assigns the full rectangle on the antipodal side; the edge normal whose length RectBounder.AddPoint tests against 1.91346e-15 is (A-B)x(A+B), the form that threshold was derived for; ConvexHullQuery.AddPolygon visits every loop.",
 "C13": " Also: re-initialisers of a polygon's derived fields start each field from a history-independent value before reading it (R-REINIT); the EdgeQuery priority queue (allocated once) is empty on every exit of the optimized search; the ShapeIndex targets give their persistent sub-query this call's limit on every path; Polygon.Invert only shifts depths.",
 "C15": " Also (re-encoding a decoded value): Polygon.numVertices, which sizes the encoder's vertex buffer, is only ever assigned a sum of loop vertex counts.",
 "C18": " Also: Polygon.Invert shifts nesting depths by exactly one (hole/shell parity of deeper descendants), and Area/Centroid/initLoopProperties visit every loop.",
 "C19": " Also: ChordAngle.Expanded passes both sentinels through; rectangles assembled from two component results are returned only when both are non-empty; Rect.Lo/Hi are mirror images; endpoint arithmetic in Interval.Expanded (r1, s1) is reachable only past a test of the receiver's emptiness or length; s1.Interval.Expanded predicts full/empty results from the result's own length (length + 2*margin) with a conservative rounding allowance; chord angles are not combined with built-in arithmetic outside s1.",
}

# sentences appended after the sixth round of seeded changes (DESIGN.md section 9.5)
EXTRA6 = {
 "C01": " Round 6: the two branches of stToUV are mirror images under s -> 1-s (exact antisymmetry across a cube edge); Advance/AdvanceWrap do no signed arithmetic on the caller's step count before limiting it.",
 "C03": " Round 6: VertexCrossing answers anything but false only behind the failed tests a == b and c == d (R-GUARD).",
 "C04": " Round 6: Polygon.ReferencePoint accumulates the origin flag by exclusive-or over the loops; walkers of a loop's clipped edge ids read endpoints with the accessor Loop.Edge uses; stToUV's branches are mirror images; the skipped cell ranges of updateFaceEdges are ordered.",
 "C05": " Round 6: ShapeIndexIterator.LocateCellID compares inclusive range ends inclusively (R-RANGE), Polygon.Invert shifts depths by one (R-PARTITION), iteratorContainsPoint reads edges with Loop.Edge's accessor.",
 "C06": " Round 6: boundaryApproxIntersects (Loop, Polygon) answers true only for an index cell that has edges (R-GUARD); searches in cumulative edge-count arrays are upper-bound searches (empty loops repeat counts); the crossing query never hands out the index's own edge slices (R-NOALIAS).",
 "C07": " Round 6: Polygon.Invert re-initialises the bound of the polygon it overwrites (R-INIT).",
 "C08": " Rounds 6-7: the MaxError allowance is applied with ChordAngle.Sub/Add (D32 repaired); a twin pair whose shapes diverge must still call the same helpers under its substitution; the conservative threshold tests move the limit in the conservative direction; initCovering adds at least one range on every path; no named result of a multi-value call is dropped and no never-assigned local is read (R-DUP e, f).",
 "C09": " Round 6: no direct Read([]byte) on a reader (short reads); xyzToFaceSiTi reports a cell level only behind the exact comparison of the argument's own vector with the cell centre (R-GUARD).",
 "C10": " Round 6: a longitude plus/minus an angle becomes an interval endpoint only through math.Remainder; the same-face flags of VertexNeighbors are the tight in-face tests (they decide the fourth neighbour, on which Cap.CellUnionBound rests); a single-loop polygon resets the loop's depth.",
 "C11": " Round 6: no wrapping successor (NextWrap/PrevWrap/AdvanceWrap) is used as a range bound or in an ordered comparison; the contents iterator raises its duplicate cut-off only on the exhausted branch of Next.",
 "C12": " Round 6: both components of the final margin of Cell.RectBound are at least 2*dblEpsilon; Cell.MaxDistanceToEdge takes the endpoint shortcut only when both endpoints are within 90 degrees (R-GUARD).",
 "C13": " Round 6: a package-level pointer to a struct is never stored into an object or returned (shared mutable defaults); applyUpdatesInternal moves its cursor to nextID.",
 "C14": " Round 6: queries do not write the options they were given (R-OPTS), Reset/applyUpdatesInternal keep the pending-update cursor consistent (R-RESET).",
 "C15": " Round 6: readFloat64 rejects NaN and infinities (R-FINITE, defect D28 repaired); no store into decoder.err sits behind 'an error is already recorded'; no call through a function value that is nil on some path; decoded loops and polygons are initialised on every non-error path (R-INIT).",
 "C16": " Round 6: the hemisphere correction sums the vertices as (a0 + a1) + (b0 + b1), the only grouping that is bit-identical under reversal and swap.",
 "C17": " Round 6: interiorDist's early exit is strict; the interior error formula takes a = sqrt(b(2-b)); Polyline.Project's running minimum starts above Pi.",
 "C18": " Round 6: PolygonFromOrientedLoops normalises by the absolute turning angle.",
 "C19": " Round 6: s1.Interval.Expanded returns the computed interval only after comparing it with the original (defect D29 repaired); outside package s1 no longitude interval is written as a literal from computed values (known finding D30, RectFromLatLng).",
 "C20": " Round 6: the tessellation constants fit the documented error model (scale <= min(E1(x0), E2(x0)) at x0 = 1 - 2*fraction); a ChordAngle is never scaled with the built-in * or /; no SnapPoint converts a scaled coordinate to an integer narrower than 64 bits.",
}

# sentences appended after the seventh round (DESIGN.md section 9.6)
EXTRA7 = {
 "C02": " Round 7: in exactCompareDistances the 'cosines of different sign' case compares the two signs with each other.",
 "C03": " Round 7: no package-level variable is written after initialisation (R-GLOBAL; a memo in Point.referenceDir would be one).",
 "C05": " Round 7: no method of a type with edges grows a rectangle vertex by vertex with Rect.AddPoint; Polygon.ReferencePoint's parity obligation also counts here.",
 "C06": " Round 7: Polygon.Edge and Polygon.ChainEdge read loop vertices through the same accessor.",
 "C07": " Round 7: Loop.findVertex returns k only behind Vertex(k) == p for that k.",
 "C10": " Round 7: Polygon.Invert's depth bookkeeping (R-PARTITION) and the vertex-only-bound rule also count here.",
 "C11": " Round 7: CellID.Pos() values are never compared for equality; the contents iterator compares its cut-off inclusively.",
 "C12": " Round 7: Cell.DistanceToCell and MaxDistanceToCell update in both directions (vertices of each cell against edges of the other).",
 "C13": " Round 7: ShapeIndexIterator.refresh assigns the cached cell on every path; Polygon.Invert's two whole-value special cases are mutually exclusive.",
 "C15": " Round 7: a loop decoded with a vertex count of 0 becomes the empty loop (D31 repaired).",
 "C16": " Round 7: the stable method declines on equality of distance and error sums; the exact method tests the float vector it normalises.",
 "C17": " Round 7: interiorDist's endpoint tests are inclusive; no arc length is taken through ChordAngleBetweenPoints(...).Angle().",
 "C18": " Round 7: no hand-written running maximum compares with a stale value (R-DUP g).",
 "C19": " Round 7: s2.Rect.AddPoint is component-wise and its guard branches return operands unchanged; every result of Cap.Expanded takes its radius from ChordAngle.Add.",
 "C20": " Round 7: edges longer than 90 degrees always get an infinite error estimate; ToLatLng reduces the raw x coordinate modulo xWrap.",
}

# sentences appended after the eighth round (DESIGN.md section 9.7)
EXTRA8 = {
 "C01": " Round 8: Pos() masks with 2^PosBits - 1; no platform-sized integer is shifted left by 31 bits or more; Cell.RectBound's axis-direction tests agree with faceUVWAxes on all six faces.",
 "C02": " Round 8: no package-level variable is written after initialisation (lazily filled exact constants would be).",
 "C04": " Round 8: the crosser's and the sign predicates' error constants and stableSign's bound also count here (exact crossings).",
 "C06": " Round 8: shape ids are treated as sparse (R-SPARSEID; D34, D35 repaired, D36 EdgeIterator is a known finding); the Loop/Polygon cell-relation tables (R-CELLREL) also count here; LaxPolygon.ChainEdge wraps at the end of its own loop; getCells collects cells whenever the bounds meet.",
 "C07": " Round 8: CrossingEdgeQuery.getCells collects cells whenever the edge's bound meets the root's bound.",
 "C08": " Round 8: the ShapeIndex targets and the crossing query keep no state that is read before it is assigned in the same call.",
 "C09": " Round 8: the optional bound of a compressed loop is written iff the bit of the properties word that was written says so; writeUvarint's raw single-byte path, if any, is below 128.",
 "C10": " Round 8: ExpandForSubregions multiplies the larger pole gap with the longitude gap; Cell.RectBound's axis-direction tests agree with faceUVWAxes.",
 "C12": " Round 8: Cell.RectBound's axis-direction tests agree with faceUVWAxes on all six faces.",
 "C13": " Round 8: R-SCRATCH covers CrossingEdgeQuery, the ShapeIndex targets and ContainsPointQuery; shape ids are treated as sparse (R-SPARSEID).",
 "C14": " Round 8: readers of the update cursor are held to the writers' locking discipline.",
 "C15": " Round 8: the compressed decoder normalises a zero-vertex loop on the bound-encoded path too (D33 repaired); a tested limit is the limit its error message reports.",
 "C16": " Round 8: cloned calls rename whole name families consistently (aLen2 with a0, a1).",
 "C17": " Round 8: exported functions of edge_distances.go return normalised points; a diverged twin pair must still call the same helpers.",
 "C19": " Round 8: Cap.InteriorContainsPoint answers the full cap before its strict comparison.",
 "C20": " Round 8: no float-to-integer conversion in SnapPoint or its helpers; tessellation accepts an edge only on the error test.",
}

# sentences appended after the ninth round (DESIGN.md section 9.8)
EXTRA9 = {
 "C02": " Round 9: an answer taken straight from a bitwise equality test of two arguments is the neutral one (0 / false), never a sign.",
 "C03": " Round 9: no value-receiver method stores into its receiver and drops the copy; EdgeOrVertexCrossing hands its arguments to VertexCrossing in order.",
 "C04": " Round 9: applyUpdatesInternal calls updateFaceEdges for every face; a flag word is not compared with an ordered operator.",
 "C05": " Round 9: in intersectsLatEdge the candidate point carries the sign of the parameter it was tested with.",
 "C06": " Round 9: CrossingEdgeQuery.candidates walks all visited cells (left only when exhausted); the package-level-variable rule (R-GLOBAL) also counts here.",
 "C07": " Round 9: a containment question asks WedgeContains at a shared vertex, an intersection question WedgeIntersects.",
 "C08": " Round 9: chordAngle() values of two distances are compared only inside the distance implementations.",
 "C09": " Round 9: asByteReader passes a reader that already reads single bytes through unchanged; a flag word is not compared with an ordered operator.",
 "C10": " Round 9: RectBounder's nearly-identical-points fallback grows the bound only from the edge's own endpoints; no latitude is taken as asin of a coordinate.",
 "C11": " Round 9: positions of a CellIndexRangeIterator are compared with len(rangeNodes)-1 (the sentinel is not a position).",
 "C12": " Round 9: the distance-0 / distance-Pi shortcuts of Cell.DistanceToCell / MaxDistanceToCell are taken on Intersects; ShrinkToFit treats the i and j axes alike.",
 "C14": " Round 9: an idle re-application of updates does no per-face work (or the status is re-read under the mutex).",
 "C15": " Round 9: Polygon's Edge, Chain and ChainPosition measure a loop as initEdgesAndIndex did; Polyline query methods test the length before reading a constant vertex index.",
 "C17": " Round 9: a computed squared chord length becomes a ChordAngle only through a clamp (D37 repaired).",
 "C16": " Round 9: the interpolation error pairs each endpoint's distance with the other endpoint's error.",
 "C20": " Round 9: the accepting test of the tessellator compares with scaledTolerance itself; asin(x / sin(c)) has a sine as numerator (law of sines).",
}

# sentences appended after the tenth round (DESIGN.md section 9.9)
EXTRA10 = {
 "C01": " Round 10: IsValid applies the even-bit mask to lsb(); the ContainsPoint margin is held to the derived (29/3)*2^-53 (D38); no sqrt(1 - E) without a clamp.",
 "C03": " Round 10: EdgeCrosser's chain state (c, acb) is accessed only by the crosser itself.",
 "C04": " Round 10: EdgeCrosser's chain state is not read from outside; updates are applied under the exclusive lock.",
 "C05": " Round 10: s1.IntervalFromEndpoints is not given the longitudes of two points (D39 repaired); normalizeCovering reaches Denormalize from a test of levelMod; no sqrt(1 - E) without a clamp.",
 "C06": " Round 10: no enumeration value is compared with the extreme of its constants; an append to a struct's slice field goes back into that field.",
 "C07": " Round 10: WedgeContains tests the triples (a2,b2,b0) and (b0,a0,a2).",
 "C08": " Round 10: shape ids are treated as sparse in EdgeQuery too; no sqrt(1 - E) without a clamp in the distance targets.",
 "C09": " Round 10: CellUnion.decode neither sorts nor normalises; NonZero bit helpers get a provably non-zero argument.",
 "C10": " Round 10: Rect.CapBound extends its centre cap to both diagonal corners; no computed float is compared for equality with a non-zero constant.",
 "C11": " Round 10: s2intersect emits an overlap only for start <= end (D43 repaired); areSiblings refuses face cells itself.",
 "C12": " Round 10: sqrt(1 - E) only with E <= 1 in floating point (D41 repaired); computed chord lengths are clamped in cell.go too.",
 "C14": " Round 10: updates are applied under Lock, not RLock; no append into a shared slice field.",
 "C15": " Round 10: Cap.decode validates the cap (D40 repaired); bounds are computed from decoded vertices only after the error test; readers and writers are paired (R-WIRE).",
 "C16": " Round 10: the collinear branch accumulates the smallest endpoint (D42 repaired); every result passes the hemisphere test; PointCross falls back on the computed zero vector; computed chord lengths are clamped.",
 "C17": " Round 10: PointCross falls back on the computed zero vector; Project's vanishing residual is a known finding (D44).",
 "C18": " Round 10: IsNormalized's shortcut reads the longitude span.",
 "C19": " Round 10: Cap.Intersects compares with >=, InteriorIntersects with >; s1.IntervalFromEndpoints is not given two point longitudes.",
 "C20": " Round 10: EdgeTessellator has no mutable state.",
}

# sentences appended after the eleventh round (DESIGN.md section 9.10)
EXTRA11 = {
 "C01": " Round 11: no latitude of a cell centre is taken as asin of a coordinate.",
 "C02": " Round 11: stableSign declines when its error bound underflowed (D50 repaired).",
 "C03": " Round 11: stableSign declines when its error bound underflowed (D50 repaired); the stateless CrossingSign holds no geometry of its own.",
 "C04": " Round 11: Polygon.iteratorContainsPoint does not walk its clipped edges as a vertex chain; ContainsPoint of the antipode of the reference origin is a known finding (D61).",
 "C05": " Round 11: closed predicates do not pre-filter with Interior* interval tests; replaceCellsWithAncestor searches with >= RangeMin and normalizeCovering recomputes with the caller's parameters (D53, D54 repaired).",
 "C06": " Round 11: Polygon.iteratorContainsPoint does not walk its clipped edges as a vertex chain; D61 is a known finding here too.",
 "C07": " Round 11: Polygon.Contains reads its argument's bound through RectBound (D52 repaired).",
 "C08": " Round 11: the conservative limits end in Successor / Predecessor (D51 repaired); the furthest side bounds by the supplement; initial ranges are built from cloned iterators.",
 "C09": " Round 11: the cell-centre test distinguishes signed zeros, the CellUnion encoder enforces the decoder's limit, the zero Polygon's bound is empty (D45-D47 repaired).",
 "C10": " Round 11: Rect.CapBound pads its pole cap and grows its centre cap to all four vertices (D48 repaired); the zero Polygon's bound is empty (D47).",
 "C15": " Round 11: Rect.decode validates and the vertex decoders test for unit length (D57, D58 repaired).",
 "C16": " Round 11: PreciseVector.Vector scales before converting, the stable method declines on a denormal norm (D55, D56 repaired); the hemisphere test for nearly 180 degree edges is a known finding (D60).",
 "C17": " Round 11: nothing beats a non-positive limit in updateEdgePairMinDistance (D49 repaired).",
 "C18": " Round 11: the twin comparison of the two surface integrals prints expressions completely.",
 "C19": " Round 11: Cap.Union's missing outward rounding is a known finding (D62).",
 "C20": " Round 11: the tessellator's unbounded recursion (Mercator near the poles) is a known finding (D59); wrapDestination treats x and y alike.",
}

EXTRA12 = {
 "C10": " Round 12: Cell.CapBound covers the margin Cell.ContainsPoint accepts (D64 repaired); Cell.RectBound's and Cap.RectBound's missing allowances are known findings (D65, D66).",
 "C12": " Round 12: Cell.CapBound covers the margin Cell.ContainsPoint accepts (D64 repaired); Cell.RectBound's missing allowance for it is a known finding (D65).",
 "C15": " Round 12: a decoder compares each count with the limits its own encoder enforces.",
 "C17": " Round 12: no primitive of edge_distances.go takes the plain cross product of two of its point arguments (PointCross is the robust normal); UpdateMaxDistance gates its antipode refinement on the larger endpoint distance.",
 "C20": " Round 12: the Mercator inverse guards its quotient with a test of the overflowing exponential itself.",
 "C19": " Round 12: Cap.Complement rounds its radius outward (D63 repaired).",
}

PENDING = "check for this property is designed (DESIGN.md section 4) but not yet built in this revision; no claim is made"

def main():
    props = [json.loads(l)['id'] for l in open('/verif/properties.jsonl')]
    checks = []
    na = []
    for p in props:
        if p in CLAIMS:
            c = CLAIMS[p]
            checks.append({
                "property_id": p,
                "quick_cmd": f"/verif/bin/s2lint -prop {p} -tier quick -evidence /verif/evidence/{p}.json",
                "thorough_cmd": f"/verif/bin/s2lint -prop {p} -tier thorough -evidence /verif/evidence/{p}.json",
                "evidence_file": f"/verif/evidence/{p}.json",
                "replay_cmd_template": f"/verif/bin/s2lint -prop {p} -tier thorough -v   # re-derives the obligations listed in {{path}}",
                "engine": "s2lint",
                "level_claimed": {"category": "other", "text": c["text"] + EXTRA.get(p, "") + EXTRA6.get(p, "") + EXTRA7.get(p, "") + EXTRA8.get(p, "") + EXTRA9.get(p, "") + EXTRA10.get(p, "") + EXTRA11.get(p, "") + EXTRA12.get(p, ""), "design_ref": c["design"] + ", sections 9.1-9.11"},
                "level_note": c["note"],
                "technique": c["technique"],
            })
        else:
            na.append({"property_id": p, "reason": NOT_APPLICABLE.get(p, PENDING)})
    m = {
        "version": 1,
        "setup_cmd": "cd /verif/checker && env -u GOWORK GOFLAGS=-mod=mod GOPROXY=off GOSUMDB=off GOTOOLCHAIN=local go build -o /verif/bin/s2lint ./cmd/s2lint",
        "hooks": {
            "guard": "verif",
            "enable": "none needed: the checks are static analyses of /repo's working tree and add no instrumentation",
            "baseline_off_cmd": BASELINE["cmd"],
            "source_commits": [],
            "add_only": True,
        },
        "engines": [{"name": "s2lint", "path": "/verif/checker", "serves_properties": sorted(CLAIMS),
                     "kind_free_text": "repository-specific static analyser (go/packages, go/types, go/ssa, VTA call graph; golang.org/x/tools v0.29.0)"}],
        "checks": checks,
        "not_applicable": na,
        "notes": "All checks are static analyses (family: static analysis). Every check loads /repo's current working tree on each run. Known findings: /verif/known_findings.json.",
    }
    json.dump(m, open('/verif/MANIFEST.json', 'w'), indent=1)
    print("claimed:", sorted(CLAIMS), "na:", [x['property_id'] for x in na])

main()
